package chansim

import (
	"bytes"
	"context"
	"crypto/sha256"
	"errors"
	"fmt"
	"os"
	"sort"

	"github.com/btcsuite/btcd/btcutil/v2"
	"github.com/lightningnetwork/lnd/channeldb"
	"github.com/lightningnetwork/lnd/graph/db/models"
	"github.com/lightningnetwork/lnd/lnwallet"
	"github.com/lightningnetwork/lnd/lnwallet/chainfee"
	"github.com/lightningnetwork/lnd/lnwire"

	"verif/simcore"
)

// Mode selects fault kinds and the depth of the oracles.
type Mode struct {
	Cuts        bool // connection drops with arbitrary delivered prefixes
	WriteFail   bool // injected I/O error on a persisting call
	ForkReload  int  // reload a fork of both DBs after every event: 0 never, n = every n-th event
	ForkResume  int  // continue that many forks per run to wind-down (behavioural layer)
	StaleWrites bool // other subsystems write status fields through their own (stale) handle
	StripDLP    bool // sometimes strip the data-loss-protect fields
	DurableRead bool // re-read LocalCommitment from the DB at every release (C06)
	ManyHtlcs   bool // event mix that lets hundreds of HTLCs pile up (C01 many-HTLC arm)
	ForgedRev   bool // a revoke_and_ack may arrive with a secret that is not the peer's (C06)
	// MediumDen > 0: one run in MediumDen of a fault arm lets MediumHtlcs
	// HTLCs be live at once (both sides accept 241), with 4x the steps and an
	// add-heavy event mix, so cuts, crashes, reloads and retransmissions meet
	// commitments with dozens of HTLC outputs. Drawn after every other
	// configuration draw (older tapes yield 0 = off).
	MediumDen   int
	MediumHtlcs int
	MediumSteps int // step multiplier of the medium arm (0 = 4)
	MaxSteps    int
	MaxHtlcs    int
	// Hooks for other engines (C04/C05): called with the live sim.
	OnPreRevoke func(s *Sim, side int)
	OnRevoke    func(s *Sim, side int, revokedHeight uint64, revokedTx []byte, snap *RevokedSnap)
	OnFinish    func(s *Sim)
	OnEvent     func(s *Sim)
}

// RevokedSnap carries what the breacher could broadcast for a revoked height.
type RevokedSnap struct {
	Height uint64
	Commit channeldb.ChannelCommitment
}

// FwdRec is the content of one forwarding package as returned by
// ReceiveRevocation (wire bytes of the locked-in adds and settles/fails).
type FwdRec struct {
	Adds, SettleFails [][]byte
}

// Sim is one simulated execution.
type Sim struct {
	R    *simcore.Run
	W    *World
	M    *Model
	Mode Mode
	P    [2]*Party

	knobs Knobs
	Q    [2][]lnwire.Message // Q[s]: messages sent by s, not yet delivered

	Refs     [2]map[uint64]channeldb.AddRef // side s: peer's HTLC id -> fwd-pkg add reference
	payNo    uint64
	circNo   uint64
	faults   int
	events   int
	injected [2]bool // side had an injected write failure since last reload
	resumed  int
	isFork   bool
	winding  bool
	// RevMsgs records every (height, revocation bytes) released per side.
	RevMsgs [2]map[uint64][]byte
	locked  int // HTLCs that became locked in after a fault
	aborted bool
	// Fwd[x][height] is the forwarding package side x persisted when it
	// processed the peer's revocation for that remote height.
	Fwd         [2]map[uint64]*FwdRec
	lastSig     [2][]byte
	forkNo      int
	staleWrites int
	forged      int
	// concurrency probe: both sides had unacked work at once
	concurrent bool
}

var ctxb = context.Background()

// NewSim builds a world and its model.
func NewSim(r *simcore.Run, cfg Config, mode Mode) *Sim {
	// The event-mix knobs are configuration draws too; they are drawn here,
	// before the world is built, so that the medium-HTLC draw can come last
	// and still widen the channel's limits.
	knobs := DrawKnobs(r.Tape, mode)
	if mode.MediumDen > 0 && r.Tape.CfgDraw(mode.MediumDen) == 1 {
		cfg.MaxHtlcsA, cfg.MaxHtlcsB = 241, 241
		if cfg.CapacitySat < 16_777_215 {
			cfg.CapacitySat = 16_777_215
		}
		mode.MaxHtlcs = mode.MediumHtlcs
		if mode.MediumSteps == 0 {
			mode.MediumSteps = 4
		}
		mode.MaxSteps *= mode.MediumSteps
		knobs.AddW, knobs.RemoveW = 14, 3
		r.Arm = "medium-htlcs/" + r.Arm
		r.Count("probe_medium_htlc_arm")
	}
	w := NewWorld(r, cfg)
	op := 0
	if !cfg.OpenerIsA {
		op = 1
	}
	s := &Sim{R: r, W: w, Mode: mode, P: [2]*Party{w.A, w.B}, knobs: knobs}
	s.M = NewModel(w.InitBalA, w.InitBalB, op, int64(cfg.FeePerKw))
	for i := 0; i < 2; i++ {
		s.Refs[i] = map[uint64]channeldb.AddRef{}
		s.RevMsgs[i] = map[uint64][]byte{}
		s.Fwd[i] = map[uint64]*FwdRec{}
	}
	if s.Mode.MaxSteps == 0 {
		s.Mode.MaxSteps = 120
	}
	if s.Mode.MaxHtlcs == 0 {
		s.Mode.MaxHtlcs = 12
	}
	return s
}

func nm(side int) string { return [...]string{"A", "B"}[side] }

func wireBytes(m lnwire.Message) []byte {
	var b bytes.Buffer
	if _, err := lnwire.WriteMessage(&b, m, 0); err != nil {
		panic("verif/chansim: cannot serialise wire message: " + err.Error())
	}
	return b.Bytes()
}

// errClass sorts an error returned by the state machine.
type errClass int

const (
	errNone       errClass = iota
	errConstraint          // a channel-constraint refusal: a legitimate outcome
	errSig                 // signature / key disagreement
	errInjected            // our own injected fault surfaced
	errOther
)

func classify(err error) errClass {
	if err == nil {
		return errNone
	}
	if errors.Is(err, simcore.ErrSimIO) || errors.Is(err, simcore.ErrSimCrashed) {
		return errInjected
	}
	var e1 *lnwallet.InvalidCommitSigError
	var e2 *lnwallet.InvalidHtlcSigError
	var e3 *lnwallet.InvalidPartialCommitSigError
	if errors.As(err, &e1) || errors.As(err, &e2) || errors.As(err, &e3) {
		return errSig
	}
	for _, c := range []error{
		lnwallet.ErrBelowChanReserve, lnwallet.ErrMaxHTLCNumber, lnwallet.ErrMaxPendingAmount,
		lnwallet.ErrBelowMinHTLC, lnwallet.ErrMaxWeightCost, lnwallet.ErrFeeBufferNotInitiator,
		lnwallet.ErrInvalidHTLCAmt,
	} {
		if errors.Is(err, c) {
			return errConstraint
		}
	}
	return errOther
}

// abort ends the run without a verdict for a legitimate constraint outcome on
// the receiving side (the real link would fail the channel; the properties
// class this as a constraint outcome, not a disagreement).
type abortRun struct{ why string }

func (s *Sim) constraintAbort(what string, err error) {
	s.R.Count("constraint_abort")
	s.R.Logf("ABORT (constraint outcome, not judged): %s: %v", what, err)
	s.aborted = true
	panic(abortRun{what})
}

// EndRun lets an engine built on chansim end the run at the current state
// (e.g. after it consumed a live channel object with ForceClose).
func (s *Sim) EndRun(why string) {
	s.R.Logf("END (engine): %s", why)
	s.aborted = true
	panic(abortRun{why})
}

// ---------------------------------------------------------------------------
// Local operations

func (s *Sim) amountChoices(side int) []lnwire.MilliSatoshi {
	cfg := s.W.Cfg
	fee := chainfee.SatPerKWeight(s.M.Eval(s.M.S[side].LocalTail).Fee)
	tf := lnwallet.HtlcTimeoutFee(cfg.ChanType, fee)
	sf := lnwallet.HtlcSuccessFee(cfg.ChanType, fee)
	var out []lnwire.MilliSatoshi
	for _, d := range []btcutil.Amount{cfg.DustA, cfg.DustB} {
		for _, base := range []btcutil.Amount{d, d + tf, d + sf} {
			for _, delta := range []int64{-1, 0, 1} {
				v := int64(base) + delta
				if v > 0 {
					out = append(out, lnwire.MilliSatoshi(v*1000))
				}
			}
		}
	}
	return out
}

func (s *Sim) opAdd(side int) {
	r := s.R
	var amt lnwire.MilliSatoshi
	var hash [32]byte
	var expiry uint32
	var payNo uint64
	dup := false
	// duplicate of an existing (hash, amount, expiry)?
	if r.Chance(1, 8) {
		var adds []Upd
		for _, u := range s.M.S[side].Log {
			if u.Kind == UAdd {
				adds = append(adds, u)
			}
		}
		if len(adds) > 0 {
			u := adds[r.Draw(len(adds))]
			amt, hash, expiry, payNo, dup = u.Amt, u.Hash, u.Expiry, u.PayNo, true
		}
	}
	if !dup {
		switch r.Draw(6) {
		case 0, 1: // around a dust threshold
			ch := s.amountChoices(side)
			amt = ch[r.Draw(len(ch))]
			amt += lnwire.MilliSatoshi([]int{0, 0, 1, 999}[r.Draw(4)])
		case 2: // tiny
			amt = lnwire.MilliSatoshi([]int{1, 999, 1000, 1001}[r.Draw(4)])
		case 3: // a good fraction of the sender's balance
			bal := s.M.Eval(s.M.S[side].LocalTail).Bal[side]
			amt = bal / lnwire.MilliSatoshi(2+r.Draw(30))
			if amt == 0 {
				amt = 1000
			}
		default:
			amt = lnwire.MilliSatoshi(1000 * (1 + r.Draw(200000)))
			amt += lnwire.MilliSatoshi([]int{0, 0, 0, 1, 500, 999}[r.Draw(6)])
		}
		s.payNo++
		payNo = s.payNo
		pre := Preimage(payNo)
		hash = sha256.Sum256(pre[:])
		expiry = uint32(500000 + r.Draw(2000))
	}
	s.circNo++
	open := s.circNo
	p := s.P[side]
	msg := &lnwire.UpdateAddHTLC{
		ChanID:      lnwire.NewChanIDFromOutPoint(s.W.FundingOut),
		Amount:      amt,
		PaymentHash: hash,
		Expiry:      expiry,
	}
	for i := range msg.OnionBlob {
		msg.OnionBlob[i] = byte(payNo + uint64(i))
	}
	idx, err := p.Chan.AddHTLC(msg, &models.CircuitKey{ChanID: lnwire.NewShortChanIDFromInt(777), HtlcID: open})
	if err != nil {
		switch classify(err) {
		case errConstraint, errOther:
			// AddHTLC may refuse for many policy reasons (reserve,
			// fee buffer, dust exposure, limits): a legitimate
			// outcome that must leave no trace.
			r.Count("add_refused")
			r.Logf("%s.AddHTLC amt=%d refused: %v", nm(side), amt, err)
			return
		default:
			r.Fail("api-error", "%s.AddHTLC: %v", nm(side), err)
		}
	}
	want := s.M.NextHtlcID(side)
	if idx != want {
		r.Fail("htlc-index", "%s.AddHTLC returned index %d, model expects %d (ids must be gap-free and never reused)", nm(side), idx, want)
	}
	msg.ID = idx
	s.M.Send(side, Upd{Kind: UAdd, HtlcID: idx, Amt: amt, Hash: hash, Expiry: expiry, PayNo: payNo, Wire: wireBytes(msg), Open: open})
	s.Q[side] = append(s.Q[side], msg)
	if dup {
		r.Count("probe_duplicate_htlc")
	}
	r.Logf("%s.AddHTLC id=%d amt=%d expiry=%d pay=%d dup=%v", nm(side), idx, amt, expiry, payNo, dup)
}

func (s *Sim) opRemove(side int, cand Upd) {
	r := s.R
	p := s.P[side]
	chanID := lnwire.NewChanIDFromOutPoint(s.W.FundingOut)
	var srcRef *channeldb.AddRef
	if ref, ok := s.Refs[side][cand.HtlcID]; ok {
		rr := ref
		srcRef = &rr
	} else {
		r.Count("probe_remove_without_ref")
	}
	s.circNo++
	closeKey := &models.CircuitKey{ChanID: lnwire.NewShortChanIDFromInt(778), HtlcID: s.circNo}
	kind := r.Draw(4)
	var msg lnwire.Message
	var u Upd
	var err error
	switch kind {
	case 0, 1:
		pre := Preimage(cand.PayNo)
		err = p.Chan.SettleHTLC(pre, cand.HtlcID, srcRef, nil, closeKey)
		msg = &lnwire.UpdateFulfillHTLC{ChanID: chanID, ID: cand.HtlcID, PaymentPreimage: pre}
		u = Upd{Kind: USettle, HtlcID: cand.HtlcID, Close: s.circNo}
	case 2:
		reason := []byte{byte(cand.HtlcID), 0xaa, 0xbb}
		err = p.Chan.FailHTLC(cand.HtlcID, reason, srcRef, nil, closeKey)
		msg = &lnwire.UpdateFailHTLC{ChanID: chanID, ID: cand.HtlcID, Reason: reason}
		u = Upd{Kind: UFail, HtlcID: cand.HtlcID, Close: s.circNo}
	default:
		var sha [32]byte
		sha[0] = byte(cand.HtlcID)
		err = p.Chan.MalformedFailHTLC(cand.HtlcID, lnwire.CodeInvalidOnionHmac, sha, srcRef)
		msg = &lnwire.UpdateFailMalformedHTLC{ChanID: chanID, ID: cand.HtlcID, ShaOnionBlob: sha, FailureCode: lnwire.CodeInvalidOnionHmac}
		u = Upd{Kind: UMalformed, HtlcID: cand.HtlcID}
	}
	if err != nil {
		r.Fail("htlc-lost", "%s cannot %s peer HTLC id=%d that the model has irrevocably committed: %v",
			nm(side), u.Kind, cand.HtlcID, err)
	}
	u.Wire = wireBytes(msg)
	if srcRef != nil {
		u.HasSrc, u.SrcH, u.SrcI = true, srcRef.Height, srcRef.Index
	}
	s.M.Send(side, u)
	s.Q[side] = append(s.Q[side], msg)
	r.Logf("%s.%s htlc=%d", nm(side), u.Kind, cand.HtlcID)
}

func (s *Sim) opFee(side int) {
	r := s.R
	fees := []int64{253, 500, 1000, 2500, 6000, 12000, 25000, 50000}
	fee := fees[r.Draw(len(fees))]
	err := s.P[side].Chan.UpdateFee(chainfee.SatPerKWeight(fee))
	if err != nil {
		r.Count("fee_refused")
		r.Logf("%s.UpdateFee %d refused: %v", nm(side), fee, err)
		return
	}
	msg := &lnwire.UpdateFee{ChanID: lnwire.NewChanIDFromOutPoint(s.W.FundingOut), FeePerKw: uint32(fee)}
	s.M.Send(side, Upd{Kind: UFee, Fee: fee, Wire: wireBytes(msg)})
	s.Q[side] = append(s.Q[side], msg)
	r.Count("probe_fee_update")
	r.Logf("%s.UpdateFee %d", nm(side), fee)
}

func (s *Sim) commitSigMsg(nc *lnwallet.NewCommitState) *lnwire.CommitSig {
	cr, err := lnwire.ParseCustomRecords(nc.AuxSigBlob)
	if err != nil {
		s.R.Fail("api-error", "ParseCustomRecords: %v", err)
	}
	return &lnwire.CommitSig{
		ChanID:        lnwire.NewChanIDFromOutPoint(s.W.FundingOut),
		CommitSig:     nc.CommitSig,
		HtlcSigs:      nc.HtlcSigs,
		PartialSig:    nc.PartialSig,
		CustomRecords: cr,
	}
}

// opSign returns false if an injected fault made the call fail.
func (s *Sim) opSign(side int, injectFail bool) bool {
	r := s.R
	p := s.P[side]
	if injectFail {
		p.KV.FailWrite(1)
	}
	nc, err := p.Chan.SignNextCommitment(ctxb)
	if injectFail {
		fired := p.KV.FiredFail > 0
		p.KV.Disarm()
		if err == nil {
			if fired {
				r.Fail("sig-without-durable-state", "%s.SignNextCommitment returned a signature although persisting the pending commitment failed", nm(side))
			}
			r.Harness("write failure armed on %s.SignNextCommitment but no write happened", nm(side))
		}
		r.Count("fault_write_fail_sign")
		r.Logf("%s.SignNextCommitment failed with injected I/O error: %v", nm(side), err)
		s.injected[side] = true
		return false
	}
	if err != nil {
		switch classify(err) {
		case errConstraint:
			s.constraintAbort(nm(side)+".SignNextCommitment", err)
		default:
			r.Fail("sign-error", "%s.SignNextCommitment (model: owes=%v window=%v): %v", nm(side), s.M.Owes(side), s.M.HasWindow(side), err)
		}
	}
	c := s.M.Sign(side)
	csm := s.commitSigMsg(nc)
	s.lastSig[side] = wireBytes(csm)
	s.Q[side] = append(s.Q[side], csm)
	r.Logf("%s.Sign -> peer height %d includes A:%d B:%d htlcSigs=%d", nm(side), c.Height, c.N[0], c.N[1], len(nc.HtlcSigs))
	return true
}

func (s *Sim) opRevoke(side int, injectFail bool) bool {
	r := s.R
	p := s.P[side]
	// what the breacher would broadcast: the commitment about to be revoked
	old := p.Chan.State().LocalCommitment
	if s.Mode.OnPreRevoke != nil && !injectFail {
		s.Mode.OnPreRevoke(s, side)
	}
	if injectFail {
		p.KV.FailWrite(1)
	}
	rev, _, _, err := p.Chan.RevokeCurrentCommitment()
	if injectFail {
		fired := p.KV.FiredFail > 0
		p.KV.Disarm()
		if err == nil || rev != nil {
			if fired {
				r.Fail("release-before-durable", "%s.RevokeCurrentCommitment handed out a revocation although persisting the new commitment failed", nm(side))
			}
			r.Harness("write failure armed on %s.RevokeCurrentCommitment but no write happened", nm(side))
		}
		r.Count("fault_write_fail_revoke")
		r.Logf("%s.RevokeCurrentCommitment failed with injected I/O error: %v", nm(side), err)
		s.injected[side] = true
		return false
	}
	if err != nil {
		r.Fail("revoke-error", "%s.RevokeCurrentCommitment: %v", nm(side), err)
	}
	h := s.M.Revoke(side)
	if old.CommitHeight != h {
		r.Fail("height-mismatch", "%s revoked its commitment at height %d, model expects %d", nm(side), old.CommitHeight, h)
	}
	s.checkRelease(side, h, rev, "RevokeCurrentCommitment")
	s.Q[side] = append(s.Q[side], rev)
	r.Logf("%s.Revoke height %d", nm(side), h)
	if s.Mode.OnRevoke != nil {
		s.Mode.OnRevoke(s, side, h, TxBytes(old.CommitTx), &RevokedSnap{Height: h, Commit: old})
	}
	return true
}

// checkRelease is the C06 release rule, evaluated the instant a revocation for
// height h leaves the API: a newer commitment must already be durable, and
// the secret and next point must follow the node's own derivation chain.
func (s *Sim) checkRelease(side int, h uint64, rev *lnwire.RevokeAndAck, via string) {
	r := s.R
	p := s.P[side]
	chans, err := p.DB.ChannelStateDB().FetchOpenChannels(p.IDPub)
	if err != nil || len(chans) != 1 {
		r.Fail("reload-error", "FetchOpenChannels on %s: n=%d err=%v", nm(side), len(chans), err)
	}
	if chans[0].LocalCommitment.CommitHeight < h+1 {
		r.Fail("release-before-durable", "%s released the secret of its height %d via %s while the database still holds local commitment height %d",
			nm(side), h, via, chans[0].LocalCommitment.CommitHeight)
	}
	want := DeriveSecret(p.Root, h)
	if !bytes.Equal(rev.Revocation[:], want[:]) {
		r.Fail("secret-chain", "%s revocation for height %d is not element %d of its own chain", nm(side), h, h)
	}
	np := DeriveSecret(p.Root, h+2)
	if !bytes.Equal(rev.NextRevocationKey.SerializeCompressed(), CommitPoint(np[:])) {
		r.Fail("secret-chain", "%s revocation for height %d carries a next point that is not point %d of its own chain", nm(side), h, h+2)
	}
	// a retransmission must be identical to the original (nonces aside)
	key := append(append([]byte{}, rev.Revocation[:]...), rev.NextRevocationKey.SerializeCompressed()...)
	if prev, ok := s.RevMsgs[side][h]; ok {
		if !bytes.Equal(prev, key) {
			r.Fail("secret-chain", "%s retransmitted a different revocation for height %d", nm(side), h)
		}
		r.Count("probe_rev_retransmitted")
	} else {
		// no gaps: all lower heights must have been released before
		if h > 0 {
			if _, ok := s.RevMsgs[side][h-1]; !ok {
				r.Fail("secret-chain", "%s released height %d before height %d", nm(side), h, h-1)
			}
		}
		s.RevMsgs[side][h] = key
	}
	r.Count("release_checks")
}

// ---------------------------------------------------------------------------
// Delivery

func (s *Sim) deliver(from int) {
	r := s.R
	to := 1 - from
	msg := s.Q[from][0]
	s.Q[from] = s.Q[from][1:]
	ch := s.P[to].Chan
	who := fmt.Sprintf("%s<-%s", nm(to), nm(from))
	isFee := false
	recvUpd := func(err error, what string) {
		if err != nil {
			switch classify(err) {
			case errConstraint:
				s.constraintAbort(who+" "+what, err)
			default:
				r.Fail("recv-error", "%s %s rejected an in-order update from an honest peer: %v", who, what, err)
			}
		}
		var e error
		if isFee {
			e = s.M.RecvFee(to)
		} else {
			e = s.M.RecvUpd(to)
		}
		if e != nil {
			r.Harness("%v", e)
		}
		r.Logf("%s %s", who, what)
	}
	switch m := msg.(type) {
	case *lnwire.UpdateAddHTLC:
		_, err := ch.ReceiveHTLC(m)
		recvUpd(err, fmt.Sprintf("add id=%d", m.ID))
	case *lnwire.UpdateFulfillHTLC:
		recvUpd(ch.ReceiveHTLCSettle(m.PaymentPreimage, m.ID), fmt.Sprintf("settle id=%d", m.ID))
	case *lnwire.UpdateFailHTLC:
		recvUpd(ch.ReceiveFailHTLC(m.ID, m.Reason), fmt.Sprintf("fail id=%d", m.ID))
	case *lnwire.UpdateFailMalformedHTLC:
		recvUpd(ch.ReceiveFailHTLC(m.ID, []byte{0x40, 0x05, byte(m.ID)}), fmt.Sprintf("malformed id=%d", m.ID))
	case *lnwire.UpdateFee:
		isFee = true
		recvUpd(ch.ReceiveUpdateFee(chainfee.SatPerKWeight(m.FeePerKw)), fmt.Sprintf("fee %d", m.FeePerKw))
	case *lnwire.CommitSig:
		blob, err := m.CustomRecords.Serialize()
		if err != nil {
			r.Fail("api-error", "CustomRecords.Serialize: %v", err)
		}
		err = ch.ReceiveNewCommitment(&lnwallet.CommitSigs{
			CommitSig: m.CommitSig, HtlcSigs: m.HtlcSigs, PartialSig: m.PartialSig, AuxSigBlob: blob,
		})
		if err != nil {
			switch classify(err) {
			case errConstraint:
				s.constraintAbort(who+" commit_sig", err)
			case errSig:
				r.Fail("sig-mismatch", "%s: a commitment signature from an honest peer does not verify (the two sides derive different transactions): %v", who, err)
			default:
				r.Fail("recv-error", "%s ReceiveNewCommitment: %v", who, err)
			}
		}
		c := s.M.RecvSig(to)
		if tip := s.M.S[from].RemoteTip; tip == nil || *tip != c {
			r.Harness("model: %s verifies commitment %+v but %s signed %+v", nm(to), c, nm(from), tip)
		}
		r.Logf("%s commit_sig accepted height=%d", who, c.Height)
	case *lnwire.RevokeAndAck:
		fwd, _, err := ch.ReceiveRevocation(m)
		if err != nil {
			r.Fail("revocation-rejected", "%s rejected the revocation of an honest peer: %v", who, err)
		}
		if e := s.M.RecvRev(to); e != nil {
			r.Harness("%v", e)
		}
		if fwd != nil {
			rec := &FwdRec{}
			// what the forwarding package hands to the switch is what the
			// peer sent, byte for byte (a settle with another preimage, an
			// add with another onion or amount is a different message)
			sent := map[string]bool{}
			for _, u := range s.M.S[from].Log {
				sent[string(u.Wire)] = true
			}
			for i, u := range fwd.Adds {
				wb := wireBytes(u.UpdateMsg)
				if !sent[string(wb)] {
					r.Fail("fwdpkg-content", "%s: add %d of the forwarding package for height %d (%T) is not a message the peer sent", who, i, fwd.Height, u.UpdateMsg)
				}
				rec.Adds = append(rec.Adds, wb)
			}
			for i, u := range fwd.SettleFails {
				wb := wireBytes(u.UpdateMsg)
				// settles byte for byte; lnd re-encodes fails (a malformed
				// fail becomes a plain one), those are not compared here
				if _, isSettle := u.UpdateMsg.(*lnwire.UpdateFulfillHTLC); isSettle && !sent[string(wb)] {
					r.Fail("fwdpkg-content", "%s: settle %d of the forwarding package for height %d is not a message the peer sent (another preimage or HTLC id): %x", who, i, fwd.Height, wb)
				}
				rec.SettleFails = append(rec.SettleFails, wb)
			}
			r.Count("fwdpkg_content_checks")
			s.Fwd[to][fwd.Height] = rec
			for i, add := range fwd.Adds {
				if a, ok := add.UpdateMsg.(*lnwire.UpdateAddHTLC); ok {
					s.Refs[to][a.ID] = channeldb.AddRef{Height: fwd.Height, Index: uint16(i)}
					if s.faults > 0 {
						s.locked++
					}
				}
			}
		}
		r.Logf("%s revoke_and_ack accepted", who)
		if os.Getenv("VERIF_DEBUG") != "" {
			b, _ := s.P[to].Chan.State().RemoteUnsignedLocalUpdates()
			r.Logf("DEBUG %s remoteUnsignedLocal=%d", nm(to), len(b))
		}
	default:
		r.Harness("unknown message type %T", msg)
	}
}

// ---------------------------------------------------------------------------
// Oracles evaluated after every event

type commitRef struct {
	c     *channeldb.ChannelCommitment
	mc    Commit
	label string
}

func (s *Sim) anchorsMsat() lnwire.MilliSatoshi {
	if s.W.Cfg.ChanType.HasAnchors() {
		return lnwire.NewMSatFromSatoshis(2 * lnwallet.AnchorSize)
	}
	return 0
}

// checkCommit compares one stored commitment (as held by side `holder`)
// with the model and checks conservation.
func (s *Sim) checkCommit(holder int, c *channeldb.ChannelCommitment, mc Commit, label string) {
	switch n := len(c.Htlcs); {
	case n >= 400:
		s.R.Count("probe_commitment_with_400+_htlc_outputs")
	case n >= 200:
		s.R.Count("probe_commitment_with_200+_htlc_outputs")
	case n >= 60:
		s.R.Count("probe_commitment_with_60+_htlc_outputs")
	}
	r := s.R
	o := 1 - holder
	tag := fmt.Sprintf("%s.%s", nm(holder), label)
	if c.CommitHeight != mc.Height {
		r.Fail("height-mismatch", "%s height %d, model expects %d", tag, c.CommitHeight, mc.Height)
	}
	capMsat := lnwire.NewMSatFromSatoshis(s.W.Cfg.CapacitySat)
	feeMsat := lnwire.NewMSatFromSatoshis(c.CommitFee) + s.anchorsMsat()
	var htlcSum lnwire.MilliSatoshi
	for _, h := range c.Htlcs {
		htlcSum += h.Amt
	}
	total := c.LocalBalance + c.RemoteBalance + htlcSum + feeMsat
	if total != capMsat {
		r.Fail("conservation", "%s: local %d + remote %d + htlcs %d + fee&anchors %d = %d msat, capacity is %d msat (off by %d)",
			tag, c.LocalBalance, c.RemoteBalance, htlcSum, feeMsat, total, capMsat, int64(total)-int64(capMsat))
	}
	if c.CommitTx != nil && c.CommitHeight > 0 {
		var outSum int64
		for _, out := range c.CommitTx.TxOut {
			outSum += out.Value
		}
		if outSum > int64(s.W.Cfg.CapacitySat) {
			r.Fail("conservation", "%s: outputs sum to %d sat > capacity %d", tag, outSum, s.W.Cfg.CapacitySat)
		}
		if int64(s.W.Cfg.CapacitySat)-outSum < int64(c.CommitFee) {
			r.Fail("conservation", "%s: outputs %d + recorded fee %d exceed capacity %d", tag, outSum, c.CommitFee, s.W.Cfg.CapacitySat)
		}
	}
	v := s.M.Eval(mc)
	if v.Underflow {
		r.Count("model_underflow")
		return
	}
	// balances: the opener carries fee + anchors, nothing else moves
	// balances but HTLC amounts.
	wantLocal, wantRemote := v.Bal[holder], v.Bal[o]
	if holder == s.M.Opener {
		if wantLocal < feeMsat {
			r.Count("opener_cannot_pay_fee")
			return
		}
		wantLocal -= feeMsat
	} else {
		if wantRemote < feeMsat {
			r.Count("opener_cannot_pay_fee")
			return
		}
		wantRemote -= feeMsat
	}
	if c.LocalBalance != wantLocal || c.RemoteBalance != wantRemote {
		r.Fail("balance", "%s (height %d): balances local=%d remote=%d, reference model (initial split moved only by HTLC amounts; opener pays fee %d) expects local=%d remote=%d",
			tag, c.CommitHeight, c.LocalBalance, c.RemoteBalance, feeMsat, wantLocal, wantRemote)
	}
	if int64(c.FeePerKw) != v.Fee {
		r.Fail("fee-rate", "%s: fee rate %d, model expects %d", tag, c.FeePerKw, v.Fee)
	}
	// HTLC set
	type hk struct {
		in     bool
		id     uint64
		amt    lnwire.MilliSatoshi
		hash   [32]byte
		expiry uint32
	}
	got := map[hk]int{}
	for _, h := range c.Htlcs {
		got[hk{h.Incoming, h.HtlcIndex, h.Amt, h.RHash, h.RefundTimeout}]++
	}
	want := map[hk]int{}
	for _, h := range v.Htlcs {
		want[hk{h.Sender != holder, h.ID, h.Amt, h.Hash, h.Expiry}]++
	}
	if len(got) != len(want) {
		r.Fail("htlc-set", "%s: %d HTLCs, model expects %d (%s)", tag, len(c.Htlcs), len(v.Htlcs), s.htlcDiff(c, v, holder))
	}
	for k, n := range want {
		if got[k] != n {
			r.Fail("htlc-set", "%s: HTLC incoming=%v id=%d amt=%d present %d times, model expects %d (%s)", tag, k.in, k.id, k.amt, got[k], n, s.htlcDiff(c, v, holder))
		}
	}
}

func (s *Sim) htlcDiff(c *channeldb.ChannelCommitment, v View, holder int) string {
	var a, b []string
	for _, h := range c.Htlcs {
		a = append(a, fmt.Sprintf("in=%v/%d/%d", h.Incoming, h.HtlcIndex, h.Amt))
	}
	for _, h := range v.Htlcs {
		b = append(b, fmt.Sprintf("in=%v/%d/%d", h.Sender != holder, h.ID, h.Amt))
	}
	sort.Strings(a)
	sort.Strings(b)
	return fmt.Sprintf("have %v, model %v", a, b)
}

// checkMirror: two stored copies of the same commitment must be mirror images.
func (s *Sim) checkMirror(own *channeldb.ChannelCommitment, ownSide int, theirs *channeldb.ChannelCommitment, label string) {
	r := s.R
	if own.CommitHeight == 0 {
		return // placeholder commitment 0 (no funding flow simulated)
	}
	if own.CommitTx.TxHash() != theirs.CommitTx.TxHash() {
		r.Fail("tx-mismatch", "%s: %s's own commitment tx %v differs from the copy its peer signed %v (height %d)",
			label, nm(ownSide), own.CommitTx.TxHash(), theirs.CommitTx.TxHash(), own.CommitHeight)
	}
	if own.LocalBalance != theirs.RemoteBalance || own.RemoteBalance != theirs.LocalBalance ||
		own.CommitFee != theirs.CommitFee || own.FeePerKw != theirs.FeePerKw {
		r.Fail("mirror", "%s: balances/fee not mirrored: own(l=%d r=%d fee=%d) peer-copy(l=%d r=%d fee=%d)", label,
			own.LocalBalance, own.RemoteBalance, own.CommitFee, theirs.LocalBalance, theirs.RemoteBalance, theirs.CommitFee)
	}
	type hk struct {
		in   bool
		id   uint64
		amt  lnwire.MilliSatoshi
		oidx int32
		hash [32]byte
	}
	a := map[hk]int{}
	for _, h := range own.Htlcs {
		a[hk{h.Incoming, h.HtlcIndex, h.Amt, h.OutputIndex, h.RHash}]++
	}
	for _, h := range theirs.Htlcs {
		k := hk{!h.Incoming, h.HtlcIndex, h.Amt, h.OutputIndex, h.RHash}
		a[k]--
	}
	for k, n := range a {
		if n != 0 {
			r.Fail("mirror", "%s: HTLC (incoming=%v id=%d amt=%d outputIndex=%d) not mirrored between the two copies of height %d", label, k.in, k.id, k.amt, k.oidx, own.CommitHeight)
		}
	}
}

func (s *Sim) pendingTip(side int) *channeldb.CommitDiff {
	d, err := s.P[side].Chan.State().RemoteCommitChainTip()
	if err != nil {
		if errors.Is(err, channeldb.ErrNoPendingCommit) {
			return nil
		}
		s.R.Fail("reload-error", "%s.RemoteCommitChainTip: %v", nm(side), err)
	}
	return d
}

// CheckAll evaluates every state oracle.
func (s *Sim) CheckAll() {
	r := s.R
	var tips [2]*channeldb.CommitDiff
	for x := 0; x < 2; x++ {
		st := s.P[x].Chan.State()
		lc, rc := st.LocalCommitment, st.RemoteCommitment
		s.checkCommit(x, &lc, s.M.S[x].LocalTail, "LocalCommitment")
		s.checkCommit(x, &rc, s.M.S[x].RemoteTail, "RemoteCommitment")
		tips[x] = s.pendingTip(x)
		mt := s.M.S[x].RemoteTip
		switch {
		case mt == nil && tips[x] != nil:
			r.Fail("pending-commit", "%s holds a pending remote commitment (height %d) the model does not expect", nm(x), tips[x].Commitment.CommitHeight)
		case mt != nil && tips[x] == nil:
			r.Fail("pending-commit", "%s lost its pending remote commitment (model: height %d)", nm(x), mt.Height)
		case mt != nil:
			s.checkCommit(x, &tips[x].Commitment, *mt, "PendingRemoteCommitment")
		}
		if int64(lc.CommitHeight) <= s.M.S[x].Revoked {
			r.Fail("revoked-state-current", "%s's current commitment height %d is not above the highest height %d whose secret it released", nm(x), lc.CommitHeight, s.M.S[x].Revoked)
		}
	}
	for x := 0; x < 2; x++ {
		o := 1 - x
		own := s.P[x].Chan.State().LocalCommitment
		if s.M.S[x].LocalTail == s.M.S[o].RemoteTail {
			rc := s.P[o].Chan.State().RemoteCommitment
			s.checkMirror(&own, x, &rc, fmt.Sprintf("%s.Local vs %s.Remote", nm(x), nm(o)))
		} else if t := s.M.S[o].RemoteTip; t != nil && *t == s.M.S[x].LocalTail && tips[o] != nil {
			s.checkMirror(&own, x, &tips[o].Commitment, fmt.Sprintf("%s.Local vs %s.PendingRemote", nm(x), nm(o)))
		}
	}
	m := s.M
	r.State(fmt.Sprintf("%d/%d/%d/%d|%v%v%v%v|%d,%d|%d", m.S[0].LocalTail.Height%4, m.S[1].LocalTail.Height%4,
		len(s.Q[0]), len(s.Q[1]), m.S[0].LocalTip != nil, m.S[1].LocalTip != nil, m.S[0].RemoteTip != nil, m.S[1].RemoteTip != nil,
		len(m.S[0].Log)-m.lastSigned(0).N[0], len(m.S[1].Log)-m.lastSigned(1).N[1], m.LiveHtlcs()))
	if s.Mode.OnEvent != nil {
		s.Mode.OnEvent(s)
	}
}
