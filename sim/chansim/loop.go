package chansim

import (
	"bytes"
	"fmt"
	"math/big"
	"strings"
	"verif/simcore"

	"github.com/lightningnetwork/lnd/channeldb"
	"github.com/lightningnetwork/lnd/fn/v2"

	"github.com/lightningnetwork/lnd/lntypes"
	"github.com/lightningnetwork/lnd/lnwire"
)

type event struct {
	kind   string
	side   int
	weight int
}

// Knobs are per-run swarm parameters for the event mix.
type Knobs struct {
	SignW, DeliverW, AddW, RemoveW, FeeW, CutW, FailW int
}

// DrawKnobs draws the event-mix weights (configuration draws).
func DrawKnobs(t *simcore.Tape, mode Mode) Knobs {
	k := Knobs{
		SignW:    []int{1, 4, 8}[t.CfgDraw(3)], // lazy vs eager signing
		DeliverW: []int{2, 6, 12}[t.CfgDraw(3)],
		AddW:     []int{2, 4, 6}[t.CfgDraw(3)],
		RemoveW:  []int{1, 3, 5}[t.CfgDraw(3)],
		FeeW:     []int{0, 1, 2}[t.CfgDraw(3)],
	}
	if mode.ManyHtlcs {
		k.AddW, k.RemoveW, k.SignW, k.DeliverW = 24, 2, 1, 14
	}
	if mode.Cuts {
		k.CutW = []int{1, 1, 2, 3}[t.CfgDraw(4)]
	}
	if mode.WriteFail {
		k.FailW = []int{0, 1, 2}[t.CfgDraw(3)]
	}
	return k
}

func (s *Sim) enabled(k Knobs) []event {
	var ev []event
	m := s.M
	live := m.LiveHtlcs()
	for x := 0; x < 2; x++ {
		// channelLink handles commitment_signed atomically: it calls
		// ReceiveNewCommitment and then RevokeCurrentCommitment before it
		// looks at any other message or request (htlcswitch/link.go). The
		// LightningChannel API relies on that, so a side holding an
		// accepted-but-unrevoked commitment can only revoke (or crash).
		if m.S[x].LocalTip != nil {
			ev = append(ev, event{"revoke", x, 12})
			if k.FailW > 0 && s.faults < 4 {
				ev = append(ev, event{"revoke!io", x, k.FailW})
			}
			continue
		}
		if live < s.Mode.MaxHtlcs {
			ev = append(ev, event{"add", x, k.AddW})
		}
		if len(m.LockedIn(x)) > 0 {
			ev = append(ev, event{"remove", x, k.RemoveW})
		}
		if x == m.Opener && k.FeeW > 0 {
			ev = append(ev, event{"fee", x, k.FeeW})
		}
		if m.Owes(x) && m.HasWindow(x) {
			ev = append(ev, event{"sign", x, k.SignW})
			if k.FailW > 0 && s.faults < 4 {
				ev = append(ev, event{"sign!io", x, k.FailW})
			}
		}
		if len(s.Q[x]) > 0 && m.S[1-x].LocalTip == nil {
			ev = append(ev, event{"deliver", x, k.DeliverW})
			if _, ok := s.Q[x][0].(*lnwire.RevokeAndAck); ok && k.FailW > 0 && s.faults < 4 {
				ev = append(ev, event{"deliver!io", x, k.FailW})
			}
			if _, ok := s.Q[x][0].(*lnwire.RevokeAndAck); ok && s.Mode.ForgedRev && s.forged < 2 && s.faults < 4 {
				ev = append(ev, event{"deliver!forged", x, 2})
			}
		}
	}
	if k.CutW > 0 && s.faults < 4 {
		ev = append(ev, event{"cut", 0, k.CutW})
	}
	if s.Mode.StaleWrites && s.staleWrites < 3 {
		ev = append(ev, event{"stale-write", 0, 1}, event{"stale-write", 1, 1})
	}
	return ev
}

// deliverPrefixesAndCut delivers an arbitrary in-order prefix per direction,
// then drops the connection.
func (s *Sim) deliverPrefixesAndCut(crashed int) {
	r := s.R
	for x := 0; x < 2; x++ {
		n := 0
		// a node whose database just failed is down: it receives
		// nothing more, but what it sent earlier may still arrive.
		if len(s.Q[x]) > 0 && 1-x != crashed {
			n = r.Draw(len(s.Q[x]) + 1)
		}
		for i := 0; i < n && s.M.S[1-x].LocalTip == nil; i++ {
			s.deliver(x)
			s.CheckAll()
		}
	}
	r.Count("fault_cut")
	s.Cut(0)
}

// deliverWithIOFailure: the receiver's database fails while it persists the
// peer's revocation.
func (s *Sim) deliverWithIOFailure(from int) {
	r := s.R
	to := 1 - from
	msg := s.Q[from][0].(*lnwire.RevokeAndAck)
	s.Q[from] = s.Q[from][1:]
	p := s.P[to]
	p.KV.FailWrite(1)
	_, _, err := p.Chan.ReceiveRevocation(msg)
	fired := p.KV.FiredFail > 0
	p.KV.FiredFail = 0
	p.KV.Disarm()
	if err == nil {
		if fired {
			r.Fail("io-error-swallowed", "%s.ReceiveRevocation reported success although persisting the new remote chain tail failed", nm(to))
		}
		r.Harness("write failure armed on ReceiveRevocation but no write happened")
	}
	r.Count("fault_write_fail_recv_rev")
	r.Logf("%s.ReceiveRevocation failed with injected I/O error: %v", nm(to), err)
	s.injected[to] = true
}

// secp256k1 group order
var curveN, _ = new(big.Int).SetString("fffffffffffffffffffffffffffffffebaaedce6af48a03bbfd25e8cd0364141", 16)

// deliverForgedRevocation: "rejects any secret not consistent with the earlier
// ones". Ahead of the peer's genuine revoke_and_ack the receiver is handed a
// copy whose per-commitment secret is not the one the peer committed to with
// the commitment point it sent earlier: one bit flipped, the scalar negated
// (n - s: the point with the same x coordinate), s + 1, the secret of another
// height of the same chain, or a secret of a foreign chain. The call must
// fail and must not write. lnd fails the link on an invalid revocation; the
// simulation goes on as after a cut (both sides reload, the genuine
// revocation is retransmitted), so whatever the rejected call left in memory
// is dropped and what it left on disk is judged by every later check.
func (s *Sim) deliverForgedRevocation(from int) {
	r := s.R
	to := 1 - from
	genuine := s.Q[from][0].(*lnwire.RevokeAndAck)
	forged := *genuine
	kinds := []string{"bit-flip", "negated-scalar", "plus-one", "other-height", "foreign-chain"}
	kind := kinds[r.Draw(len(kinds))]
	sec := new(big.Int).SetBytes(genuine.Revocation[:])
	put := func(v *big.Int) {
		var b [32]byte
		v.FillBytes(b[:])
		copy(forged.Revocation[:], b[:])
	}
	switch kind {
	case "bit-flip":
		bit := r.Draw(256)
		forged.Revocation[bit/8] ^= 1 << uint(bit%8)
	case "negated-scalar":
		put(new(big.Int).Sub(curveN, new(big.Int).Mod(sec, curveN)))
	case "plus-one":
		put(new(big.Int).Mod(new(big.Int).Add(sec, big.NewInt(1)), curveN))
	case "other-height":
		// a secret the peer has released before (replay), else its next one
		var other [32]byte
		found := false
		for oh := range s.RevMsgs[from] {
			o := DeriveSecret(s.P[from].Root, oh)
			if !bytes.Equal(o[:], genuine.Revocation[:]) && (!found || bytes.Compare(o[:], other[:]) < 0) {
				other, found = o, true
			}
		}
		if !found {
			other = DeriveSecret(s.P[from].Root, uint64(len(s.RevMsgs[from]))+1)
		}
		copy(forged.Revocation[:], other[:])
	case "foreign-chain":
		o := DeriveSecret(s.P[to].Root, uint64(r.Draw(4)))
		copy(forged.Revocation[:], o[:])
	}
	if bytes.Equal(forged.Revocation[:], genuine.Revocation[:]) {
		r.Harness("forged revocation equals the genuine one (%s)", kind)
	}
	p := s.P[to]
	w0 := p.KV.Writes()
	_, _, err := p.Chan.ReceiveRevocation(&forged)
	if err == nil {
		r.Fail("forged-revocation-accepted", "%s accepted a revoke_and_ack whose per-commitment secret (%s of the genuine one) does not match the commitment point the peer had sent for that height: the revocation store now holds a value that is not the peer's secret", nm(to), kind)
	}
	if w := p.KV.Writes(); w != w0 {
		r.Fail("forged-revocation-persisted", "%s rejected a forged revoke_and_ack (%s) but performed %d write transaction(s) while doing so", nm(to), kind, w-w0)
	}
	s.forged++
	r.Count("fault_forged_revocation_" + kind)
	r.Logf("%s rejected a forged revoke_and_ack (%s): %v", nm(to), kind, err)
	// the receiving object is discarded (lnd fails the link)
	s.injected[to] = true
}

// Run drives one execution: workload with faults, then wind-down.
func (s *Sim) Run() {
	r := s.R
	defer func() {
		if p := recover(); p != nil {
			if _, ok := p.(abortRun); ok {
				return
			}
			panic(p)
		}
	}()
	k := s.knobs
	r.Logf("config: %v knobs=%+v", s.W.Cfg, k)
	s.CheckAll()
	for s.events < s.Mode.MaxSteps && r.Step() {
		ev := s.enabled(k)
		total := 0
		for _, e := range ev {
			total += e.weight
		}
		if total == 0 {
			break
		}
		pick := r.Draw(total)
		var e event
		for _, c := range ev {
			if pick < c.weight {
				e = c
				break
			}
			pick -= c.weight
		}
		r.Kind(fmt.Sprintf("%s:%s", e.kind, nm(e.side)))
		s.events++
		// C02, crash points INSIDE a call: every write transaction that
		// commits while the event runs is a point where the node can stop.
		// The database is forked right after each of them; what a reload of
		// such a fork shows must be the durable state from before the event
		// or the one after it, never something in between.
		var midForks [2][]*simcore.SimKV
		var preDigest [2][]string
		atomicity := s.Mode.ForkReload > 0 && !strings.Contains(e.kind, "!io") && e.kind != "cut" && e.kind != "stale-write"
		if atomicity {
			for x := 0; x < 2; x++ {
				x := x
				preDigest[x] = durableDigest(s.P[x].Chan.State())
				kv := s.P[x].KV
				kv.OnCommitted = func(k int) {
					s.forkNo++
					f, err := kv.Fork(r.SubDir(fmt.Sprintf("mid%d%s", s.forkNo, nm(x))))
					if err == nil {
						midForks[x] = append(midForks[x], f)
					}
				}
			}
		}
		switch e.kind {
		case "add":
			s.opAdd(e.side)
		case "remove":
			c := s.M.LockedIn(e.side)
			s.opRemove(e.side, c[r.Draw(len(c))])
		case "fee":
			s.opFee(e.side)
		case "sign":
			s.opSign(e.side, false)
		case "sign!io":
			s.opSign(e.side, true)
			s.P[e.side].KV.FiredFail = 0
			s.deliverPrefixesAndCut(e.side)
		case "revoke":
			s.opRevoke(e.side, false)
		case "revoke!io":
			s.opRevoke(e.side, true)
			s.P[e.side].KV.FiredFail = 0
			s.deliverPrefixesAndCut(e.side)
		case "deliver":
			s.deliver(e.side)
		case "deliver!io":
			s.deliverWithIOFailure(e.side)
			s.deliverPrefixesAndCut(1 - e.side)
		case "deliver!forged":
			s.deliverForgedRevocation(e.side)
			s.deliverPrefixesAndCut(1 - e.side)
		case "cut":
			s.deliverPrefixesAndCut(-1)
		case "stale-write":
			s.opStaleWrite(e.side)
		}
		if atomicity {
			for x := 0; x < 2; x++ {
				s.P[x].KV.OnCommitted = nil
			}
			s.checkWriteAtomicity(e.kind, midForks, preDigest)
		}
		s.CheckAll()
		s.noteConcurrency()
		if n := s.Mode.ForkReload; n > 0 && s.events%n == 0 {
			resume := s.resumed < s.Mode.ForkResume && r.Chance(1, 6)
			if resume {
				s.resumed++
			}
			s.ForkCheck(resume)
		}
	}
	if s.Mode.StaleWrites {
		s.statusUpdateRace()
	}
	if s.Mode.OnFinish != nil {
		s.Mode.OnFinish(s)
	}
	s.WindDown(true)
	if s.Mode.Cuts || s.Mode.WriteFail {
		r.Nontrivial = s.faults > 0 && s.locked > 0
	} else {
		r.Nontrivial = s.concurrent
	}
}

func (s *Sim) noteConcurrency() {
	m := s.M
	busy := func(x int) bool {
		return len(s.Q[x]) > 0 || m.S[x].RemoteTip != nil || len(m.S[x].Log) > m.lastSigned(x).N[x]
	}
	if busy(0) && busy(1) {
		s.concurrent = true
		s.R.Count("probe_both_sides_busy")
	}
	if m.S[0].RemoteTip != nil && m.S[1].RemoteTip != nil {
		s.R.Count("probe_crossing_signatures")
	}
}

// WindDown: no more faults; drain, sign, revoke until at rest (bounded), then
// optionally resolve every remaining HTLC and come to rest again.
func (s *Sim) WindDown(resolve bool) {
	r := s.R
	s.winding = true
	rest := func(phase string) {
		for iter := 0; ; iter++ {
			if iter > 64 {
				r.Fail("no-progress", "after faults stopped the two sides did not come to rest within 64 rounds (%s): model %+v", phase, s.M.S)
			}
			progress := false
			for x := 0; x < 2; x++ {
				if s.M.S[x].LocalTip != nil {
					s.opRevoke(x, false)
					s.CheckAll()
					progress = true
				}
			}
			for x := 0; x < 2; x++ {
				for len(s.Q[x]) > 0 && s.M.S[1-x].LocalTip == nil {
					s.deliver(x)
					s.CheckAll()
					progress = true
				}
			}
			for x := 0; x < 2; x++ {
				if s.M.Owes(x) && s.M.HasWindow(x) {
					s.opSign(x, false)
					s.CheckAll()
					progress = true
				}
			}
			if !progress {
				break
			}
		}
		if !s.M.AtRest() {
			r.Fail("no-progress", "wind-down stalled (%s) but the model is not at rest: %+v", phase, s.M.S)
		}
		s.checkAtRest(phase)
	}
	rest("drain")
	if resolve {
		for round := 0; round < 4; round++ {
			did := false
			for x := 0; x < 2; x++ {
				for _, c := range s.M.LockedIn(x) {
					s.opRemove(x, c)
					s.CheckAll()
					did = true
				}
			}
			if !did {
				break
			}
			rest("resolve")
		}
		if n := s.M.LiveHtlcs(); n != 0 {
			r.Fail("htlc-dangling", "%d HTLCs could not be resolved after wind-down", n)
		}
		for x := 0; x < 2; x++ {
			if !s.P[x].Chan.IsChannelClean() {
				r.Fail("not-clean", "%s: every HTLC is resolved and both sides are at rest, yet the channel does not report clean", nm(x))
			}
		}
		r.Count("wind_down_clean")
	}
	s.winding = false
}

// checkAtRest: nothing in flight => both sides' views are mirror images and
// the real state machines agree that nothing is pending.
func (s *Sim) checkAtRest(phase string) {
	r := s.R
	for x := 0; x < 2; x++ {
		o := 1 - x
		ch := s.P[x].Chan
		for _, a := range []lntypes.ChannelParty{lntypes.Local, lntypes.Remote} {
			for _, b := range []lntypes.ChannelParty{lntypes.Local, lntypes.Remote} {
				if n := ch.NumPendingUpdates(a, b); n != 0 {
					r.Fail("pending-updates", "%s at rest (%s): %d updates of %v still not on %v's commitment", nm(x), phase, n, a, b)
				}
			}
		}
		if ch.OweCommitment() || ch.NeedCommitment() {
			r.Fail("pending-updates", "%s at rest (%s): OweCommitment=%v NeedCommitment=%v", nm(x), phase, ch.OweCommitment(), ch.NeedCommitment())
		}
		own := ch.State().LocalCommitment
		peerCopy := s.P[o].Chan.State().RemoteCommitment
		s.checkMirror(&own, x, &peerCopy, fmt.Sprintf("at rest: %s.Local vs %s.Remote", nm(x), nm(o)))
	}
	r.Count("at_rest_checks")
}

// opStaleWrite: another subsystem of the node (chain watcher on spend
// detection, funding manager, closer) records a status field through its own
// handle on the channel, loaded when the node started. Such a write must
// never disturb what the link has made durable since.
func (s *Sim) opStaleWrite(side int) {
	r := s.R
	st := s.P[side].Stale
	s.staleWrites++
	var err error
	var what string
	switch r.Draw(5) {
	case 4:
		// funding manager: the funding transaction of a zero-conf channel
		// that is already in use confirms
		what = "MarkRealScid"
		err = st.MarkRealScid(lnwire.NewShortChanIDFromInt(uint64(600000+r.Draw(100))<<40 | 1<<16))
	case 0:
		what = "MarkCloseConfirmationHeight"
		err = st.MarkCloseConfirmationHeight(fn.Some(uint32(700000 + r.Draw(100))))
	case 1:
		what = "ResetCloseConfirmationHeight"
		err = st.ResetCloseConfirmationHeight()
	case 2:
		what = "MarkConfirmationHeight"
		err = st.MarkConfirmationHeight(uint32(600000 + r.Draw(100)))
	default:
		what = "MarkShutdownSent"
		err = st.MarkShutdownSent(channeldb.NewShutdownInfo([]byte{0x00, 0x14, 1, 2, 3, 4, 5, 6, 7, 8, 9, 10, 11, 12, 13, 14, 15, 16, 17, 18, 19, 20}, side == 0))
	}
	if err != nil {
		r.Fail("stale-handle-write", "%s: %s through the node's secondary handle fails: %v", nm(side), what, err)
	}
	r.Count("fault_stale_handle_write")
	r.Logf("%s: %s via the secondary (start-up) handle", nm(side), what)
	if s.Mode.ForkReload == 0 {
		s.ForkCheck(false)
	}
}

// statusUpdateRace: the last event of a history. The node decides to go on
// chain while its link is still live: the chain arbitrator marks the channel
// borked through ITS handle on the channel record (MarkBorked, the first thing
// a force close does) and the link, on its own handle, makes a commitment
// update durable at the same moment. Scheduling point: the entry of every
// database transaction of the status call after its first - if the call
// reads in one transaction and writes in another, the link's write lands in
// between. Whatever the interleaving, a reload must show everything the link
// made durable (the status flag apart): the secret of the revoked commitment
// has been released. No draw (older tapes keep their layout): the side is the
// first one with a revoke or a signature due.
func (s *Sim) statusUpdateRace() {
	r, m := s.R, s.M
	for x := 0; x < 2; x++ {
		kind := ""
		switch {
		case s.P[x].Stale == nil:
		case m.S[x].LocalTip != nil:
			kind = "revoke"
		case m.Owes(x) && m.HasWindow(x):
			kind = "sign"
		}
		if kind == "" {
			continue
		}
		kv := s.P[x].KV
		txs, fired := 0, false
		kv.OnTx = func(bool) {
			txs++
			if txs < 2 || fired {
				return
			}
			fired = true
			if kind == "revoke" {
				s.opRevoke(x, false)
			} else {
				s.opSign(x, false)
			}
			r.Count("fault_link_write_between_two_txs_of_a_status_update")
		}
		err := s.P[x].Stale.MarkBorked()
		kv.OnTx = nil
		if err != nil {
			r.Fail("stale-handle-write", "%s: MarkBorked through the node's secondary handle fails: %v", nm(x), err)
		}
		r.Count("probe_status_update_race_at_end")
		// (one transaction: nothing can land inside it; a link write AFTER it
		// is refused by design - "cannot mutate borked channel" - so none is
		// attempted: the link's pending step stays for the wind-down)
		strip := func(d []string) []string {
			var o []string
			for _, l := range d {
				if i := strings.Index(l, " status="); i >= 0 {
					l = l[:i]
				}
				o = append(o, l)
			}
			return o
		}
		fp := s.ForkParty(x)
		got, want := strip(durableDigest(fp.Chan.State())), strip(durableDigest(s.P[x].Chan.State()))
		fp.KV.Close()
		// the decision is taken back (the history goes on to its wind-down)
		if err := s.P[x].Stale.ClearChanStatus(channeldb.ChanStatusBorked); err != nil {
			r.Fail("stale-handle-write", "%s: ClearChanStatus through the node's secondary handle fails: %v", nm(x), err)
		}
		if d := diffDigest(want, got); d != "" {
			r.Fail("status-update-rolls-back", "%s: MarkBorked through the node's second handle raced with the link's %s; after a reload the channel differs from what the link made durable: %s",
				nm(x), kind, d)
		}
		return
	}
}

// checkWriteAtomicity examines the forks taken after each write transaction
// of the event that just ran (see Run). The last fork of a party equals its
// state after the event; every earlier one is a crash point between two write
// transactions of ONE call and must reload to the durable state before or
// after the event.
func (s *Sim) checkWriteAtomicity(kind string, forks [2][]*simcore.SimKV, pre [2][]string) {
	r := s.R
	for x := 0; x < 2; x++ {
		fs := forks[x]
		r.Add("write_txs_observed_inside_events", int64(len(fs)))
		if len(fs) > 1 {
			r.Count("probe_event_with_several_write_txs")
			if s.aborted || s.P[x].KV.Fenced() {
				fs = nil
			}
		}
		var post []string
		if len(fs) > 1 {
			post = durableDigest(s.P[x].Chan.State())
		}
		for i, kv := range forks[x] {
			if len(fs) > 1 && i < len(fs)-1 {
				db, err := channeldb.CreateWithBackend(kv, s.P[x].DBOpts...)
				if err != nil {
					r.Fail("reload-error", "%s: database does not reopen after a crash between write transactions %d and %d of %s: %v", nm(x), i+1, i+2, kind, err)
				}
				ch, err := LoadChannel(db, s.P[x].IDPub, s.P[x].Signer, s.P[x].Pool)
				if err != nil {
					r.Fail("reload-error", "%s: channel does not reopen after a crash between write transactions %d and %d of %s: %v", nm(x), i+1, i+2, kind, err)
				}
				d := durableDigest(ch.State())
				if diffDigest(pre[x], d) != "" && diffDigest(post, d) != "" {
					r.Fail("write-not-atomic", "%s: %s performs %d write transactions; a crash after the %d. one leaves a durable state that is neither the one before the call nor the one after it (vs before: %s | vs after: %s)",
						nm(x), kind, len(fs), i+1, diffDigest(pre[x], d), diffDigest(post, d))
				}
				r.Count("crash_points_between_write_txs")
			}
			kv.Close()
		}
	}
}

// durableDigest is stateDigest plus the forwarding packages on disk (the
// record of what a revocation locked in is written by the same call that
// advances the commitment chain).
func durableDigest(st *channeldb.OpenChannel) []string {
	out := stateDigest(st)
	pkgs, err := st.LoadFwdPkgs()
	if err != nil {
		return append(out, "fwdpkgs: error "+err.Error())
	}
	for _, p := range pkgs {
		out = append(out, fmt.Sprintf("fwdpkg h=%d state=%d adds=%d settlefails=%d ack=%v fwd=%v sf=%v",
			p.Height, p.State, len(p.Adds), len(p.SettleFails), p.AckFilter, p.FwdFilter, p.SettleFailFilter))
	}
	return out
}
