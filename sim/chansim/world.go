// Package chansim is the two-party channel simulator: two real
// lnwallet.LightningChannel state machines on crash-injecting databases, a
// FIFO transport the tape controls, and a BOLT-2 reference model.
package chansim

import (
	"bytes"
	"crypto/sha256"
	"encoding/binary"
	"fmt"
	"net"

	"github.com/btcsuite/btcd/btcec/v2"
	"github.com/btcsuite/btcd/btcutil/v2"
	"github.com/btcsuite/btcd/chainhash/v2"
	"github.com/btcsuite/btcd/wire/v2"
	"github.com/lightningnetwork/lnd/channeldb"
	"github.com/lightningnetwork/lnd/chanstate"
	"github.com/lightningnetwork/lnd/input"
	"github.com/lightningnetwork/lnd/keychain"
	"github.com/lightningnetwork/lnd/lnwallet"
	"github.com/lightningnetwork/lnd/lnwallet/chainfee"
	"github.com/lightningnetwork/lnd/lnwire"
	"github.com/lightningnetwork/lnd/shachain"

	"verif/simcore"
)

// ChanTypes are the seven channel types of the properties, as the funding
// flow composes them (lnwallet/reservation.go).
var ChanTypes = []struct {
	Name string
	T    channeldb.ChannelType
}{
	{"legacy", channeldb.SingleFunderBit},
	{"tweakless", channeldb.SingleFunderTweaklessBit},
	{"anchors", channeldb.SingleFunderTweaklessBit | channeldb.AnchorOutputsBit},
	{"anchors-zero-fee", channeldb.SingleFunderTweaklessBit | channeldb.AnchorOutputsBit | channeldb.ZeroHtlcTxFeeBit},
	// script-enforced lease: LeaseExpirationBit WITHOUT FrozenBit, as
	// reservation.go sets it (the two are alternatives there); the thaw
	// height is what the lease CLTV in the scripts is built from
	{"lease", channeldb.SingleFunderTweaklessBit | channeldb.AnchorOutputsBit | channeldb.ZeroHtlcTxFeeBit |
		channeldb.LeaseExpirationBit},
	{"taproot-staging", channeldb.SingleFunderTweaklessBit | channeldb.AnchorOutputsBit | channeldb.ZeroHtlcTxFeeBit |
		channeldb.SimpleTaprootFeatureBit},
	{"taproot-final", channeldb.SingleFunderTweaklessBit | channeldb.AnchorOutputsBit | channeldb.ZeroHtlcTxFeeBit |
		channeldb.SimpleTaprootFeatureBit | channeldb.TaprootFinalBit},
}

// Config is the swarm-drawn configuration of one world.
type Config struct {
	TypeIdx      int
	ChanType     channeldb.ChannelType
	TypeName     string
	OpenerIsA    bool
	CapacitySat  btcutil.Amount
	OpenerPct    int // share of capacity the opener starts with
	DustA, DustB btcutil.Amount
	ReserveA     btcutil.Amount // reserve A must keep (imposed by B)
	ReserveB     btcutil.Amount
	MaxHtlcsA    uint16 // max HTLCs A accepts
	MaxHtlcsB    uint16
	CsvA, CsvB   uint16
	FeePerKw     chainfee.SatPerKWeight
	ThawHeight   uint32
	NoRevLogAmt  bool
}

func (c Config) String() string {
	op := "A"
	if !c.OpenerIsA {
		op = "B"
	}
	return fmt.Sprintf("type=%s opener=%s cap=%d openerPct=%d dustA=%d dustB=%d resA=%d resB=%d maxA=%d maxB=%d csvA=%d csvB=%d fee=%d",
		c.TypeName, op, c.CapacitySat, c.OpenerPct, c.DustA, c.DustB, c.ReserveA, c.ReserveB,
		c.MaxHtlcsA, c.MaxHtlcsB, c.CsvA, c.CsvB, c.FeePerKw)
}

// DrawConfig draws a configuration from the tape (header draws).
func DrawConfig(t *simcore.Tape) Config {
	var c Config
	c.TypeIdx = t.CfgDraw(len(ChanTypes))
	c.ChanType = ChanTypes[c.TypeIdx].T
	c.TypeName = ChanTypes[c.TypeIdx].Name
	c.OpenerIsA = t.CfgDraw(2) == 0
	caps := []btcutil.Amount{200_000, 1_000_000, 16_777_215, 500_000_000}
	c.CapacitySat = caps[t.CfgDraw(len(caps))]
	pcts := []int{50, 50, 70, 90, 30, 99}
	c.OpenerPct = pcts[t.CfgDraw(len(pcts))]
	dusts := []btcutil.Amount{354, 546, 200, 1300, 3000}
	c.DustA = dusts[t.CfgDraw(len(dusts))]
	c.DustB = dusts[t.CfgDraw(len(dusts))]
	// reserve: 1% of capacity, or a small fixed one, at least dust
	if t.CfgDraw(3) == 0 {
		c.ReserveA, c.ReserveB = 1000, 1000
	} else {
		c.ReserveA, c.ReserveB = c.CapacitySat/100, c.CapacitySat/100
	}
	if c.ReserveA < c.DustA {
		c.ReserveA = c.DustA
	}
	if c.ReserveB < c.DustB {
		c.ReserveB = c.DustB
	}
	mx := []uint16{3, 8, 30, 241}
	c.MaxHtlcsA = mx[t.CfgDraw(len(mx))]
	c.MaxHtlcsB = mx[t.CfgDraw(len(mx))]
	c.CsvA = uint16(1 + t.CfgDraw(144))
	c.CsvB = uint16(1 + t.CfgDraw(144))
	fees := []chainfee.SatPerKWeight{253, 1000, 6000, 25000}
	c.FeePerKw = fees[t.CfgDraw(len(fees))]
	if c.ChanType.HasLeaseExpiration() {
		c.ThawHeight = uint32(1000 + t.CfgDraw(5000))
	}
	return c
}

// Party is one side of the channel.
type Party struct {
	Name    string // "A" or "B"
	Keys    []*btcec.PrivateKey
	Signer  *input.MockSigner
	Pool    *lnwallet.SigPool
	KV      *simcore.SimKV
	DB      *channeldb.DB
	Chan    *lnwallet.LightningChannel
	IDPub   *btcec.PublicKey
	Root    chainhash.Hash // shachain root
	DBOpts  []channeldb.OptionModifier
	Opener  bool
	Reloads int
	// Stale is a second handle on the same channel, loaded from the same
	// database when the node (re)started and never refreshed - what the
	// chain watcher, funding manager or closer hold in production.
	Stale *chanstate.OpenChannel
	// Aged (forks only) is a copy of the LIVE party's start-up handle as it
	// was in memory at the moment of the fork, re-pointed at the fork's
	// database: the channel record a long-lived subsystem (the chain
	// watcher is created at start-up and keeps its OpenChannel) holds after
	// the link's own handle has advanced the channel many times. Whatever it
	// needs that changed since it was loaded it must re-read from the
	// database.
	Aged *chanstate.OpenChannel
}

// World is a pair of parties sharing one channel.
type World struct {
	R    *simcore.Run
	Cfg  Config
	A, B *Party
	// InitBal are the initial pre-fee balances in msat (opener's includes
	// the commit fee and anchors it pays).
	InitBalA, InitBalB lnwire.MilliSatoshi
	FundingOut         wire.OutPoint
}

var (
	seedKeyA = []byte{
		0x2b, 0xd8, 0x06, 0xc9, 0x7f, 0x0e, 0x00, 0xaf, 0x1a, 0x1f, 0xc3, 0x32, 0x8f, 0xa7, 0x63, 0xa9,
		0x26, 0x97, 0x23, 0xc8, 0xdb, 0x8f, 0xac, 0x4f, 0x93, 0xaf, 0x71, 0xdb, 0x18, 0x6d, 0x6e, 0x90,
	}
	seedKeyB = []byte{
		0x81, 0xb6, 0x37, 0xd8, 0xfc, 0xd2, 0xc6, 0xda, 0x63, 0x59, 0xe6, 0x96, 0x31, 0x13, 0xa1, 0x17,
		0x0d, 0xe7, 0x95, 0xe4, 0xb7, 0x25, 0xb8, 0x4d, 0x1e, 0x0b, 0x4c, 0xfd, 0x9e, 0xc5, 0x8c, 0xe9,
	}
	testSig = []byte{
		0x30, 0x44, 0x02, 0x20, 0x4e, 0x45, 0xe1, 0x69, 0x32, 0xb8, 0xaf, 0x51, 0x49, 0x61, 0xa1, 0xd3,
		0xa1, 0xa2, 0x5f, 0xdf, 0x3f, 0x4f, 0x77, 0x32, 0xe9, 0xd6, 0x24, 0xc6, 0xc6, 0x15, 0x48, 0xab,
		0x5f, 0xb8, 0xcd, 0x41, 0x02, 0x20, 0x18, 0x15, 0x22, 0xec, 0x8e, 0xca, 0x07, 0xde, 0x48, 0x60,
		0xa4, 0xac, 0xdd, 0x12, 0x90, 0x9d, 0x83, 0x1c, 0xc5, 0x6c, 0xbb, 0xac, 0x46, 0x22, 0x08, 0x22,
		0x21, 0xa8, 0x76, 0x8d, 0x1d, 0x09,
	}
	fundingTx = &wire.MsgTx{
		Version: 1,
		TxIn: []*wire.TxIn{{
			PreviousOutPoint: wire.OutPoint{Index: 0xffffffff},
			SignatureScript:  []byte{0x04, 0x31, 0xdc, 0x00, 0x1b, 0x01, 0x62},
			Sequence:         0xffffffff,
		}},
		TxOut:    []*wire.TxOut{{Value: 5000000000, PkScript: []byte{0x51}}},
		LockTime: 5,
	}
)

func deriveKeys(seed []byte, salt uint64) []*btcec.PrivateKey {
	var out []*btcec.PrivateKey
	for i := 0; i < 5; i++ {
		var sb [8]byte
		binary.BigEndian.PutUint64(sb[:], salt)
		h := sha256.Sum256(append(append([]byte{byte(i + 1)}, seed...), sb[:]...))
		k, _ := btcec.PrivKeyFromBytes(h[:])
		out = append(out, k)
	}
	return out
}

// NewWorld builds both channel ends "as if funding just completed", like
// lnwallet.CreateTestChannels does, but from the drawn configuration and on
// SimKV databases.
func NewWorld(r *simcore.Run, cfg Config) *World {
	w := &World{R: r, Cfg: cfg}
	keysA := deriveKeys(seedKeyA, r.Seed)
	keysB := deriveKeys(seedKeyB, r.Seed)

	var fh chainhash.Hash
	hh := sha256.Sum256(append([]byte("funding"), keysA[0].Serialize()...))
	copy(fh[:], hh[:])
	prevOut := wire.OutPoint{Hash: fh, Index: uint32(r.Seed % 4)}
	w.FundingOut = prevOut
	fundingTxIn := wire.NewTxIn(&prevOut, nil, nil)

	mkCfg := func(keys []*btcec.PrivateKey, dust, reserve btcutil.Amount, maxHtlcs uint16, csv uint16) channeldb.ChannelConfig {
		return channeldb.ChannelConfig{
			ChannelStateBounds: channeldb.ChannelStateBounds{
				MaxPendingAmount: lnwire.NewMSatFromSatoshis(cfg.CapacitySat),
				ChanReserve:      reserve,
				MinHTLC:          0,
				MaxAcceptedHtlcs: maxHtlcs,
			},
			CommitmentParams: channeldb.CommitmentParams{
				DustLimit: dust,
				CsvDelay:  csv,
			},
			MultiSigKey:         keychain.KeyDescriptor{PubKey: keys[0].PubKey()},
			RevocationBasePoint: keychain.KeyDescriptor{PubKey: keys[1].PubKey()},
			PaymentBasePoint:    keychain.KeyDescriptor{PubKey: keys[2].PubKey()},
			DelayBasePoint:      keychain.KeyDescriptor{PubKey: keys[3].PubKey()},
			HtlcBasePoint:       keychain.KeyDescriptor{PubKey: keys[4].PubKey()},
		}
	}
	// In lnd a ChannelConfig holds the constraints *that party must obey*
	// (they were chosen by the other side), except DustLimit and CsvDelay,
	// which follow the same convention. We keep the fixture's convention.
	aliceCfg := mkCfg(keysA, cfg.DustA, cfg.ReserveA, cfg.MaxHtlcsA, cfg.CsvA)
	bobCfg := mkCfg(keysB, cfg.DustB, cfg.ReserveB, cfg.MaxHtlcsB, cfg.CsvB)

	rootA, _ := chainhash.NewHash(keysA[0].Serialize())
	rootB, _ := chainhash.NewHash(keysB[0].Serialize())
	prodA := shachain.NewRevocationProducer(*rootA)
	prodB := shachain.NewRevocationProducer(*rootB)
	firstA, err := prodA.AtIndex(0)
	r.Must(err, "shachain")
	firstB, err := prodB.AtIndex(0)
	r.Must(err, "shachain")
	pointA := input.ComputeCommitmentPoint(firstA[:])
	pointB := input.ComputeCommitmentPoint(firstB[:])

	openerBal := cfg.CapacitySat * btcutil.Amount(cfg.OpenerPct) / 100
	otherBal := cfg.CapacitySat - openerBal
	balA, balB := openerBal, otherBal
	if !cfg.OpenerIsA {
		balA, balB = otherBal, openerBal
	}
	w.InitBalA = lnwire.NewMSatFromSatoshis(balA)
	w.InitBalB = lnwire.NewMSatFromSatoshis(balB)

	commitWeight := lnwallet.CommitWeight(cfg.ChanType)
	commitFee := cfg.FeePerKw.FeeForWeight(commitWeight)
	var anchors btcutil.Amount
	if cfg.ChanType.HasAnchors() {
		anchors = 2 * lnwallet.AnchorSize
	}
	// the opener pays fee and anchors
	netA, netB := balA, balB
	if cfg.OpenerIsA {
		netA -= commitFee + anchors
	} else {
		netB -= commitFee + anchors
	}
	if netA < 0 || netB < 0 {
		r.Harness("config gives negative opening balance: %v", cfg)
	}

	aliceCommitTx, bobCommitTx, err := lnwallet.CreateCommitmentTxns(
		netA, netB, &aliceCfg, &bobCfg, pointA, pointB, *fundingTxIn,
		cfg.ChanType, cfg.OpenerIsA, cfg.ThawHeight,
	)
	r.Must(err, "CreateCommitmentTxns")

	mkParty := func(name string, keys []*btcec.PrivateKey, opener bool) *Party {
		p := &Party{Name: name, Keys: keys, Opener: opener}
		p.Signer = input.NewMockSigner(keys, nil)
		p.Pool = lnwallet.NewSigPool(1, p.Signer)
		r.Must(p.Pool.Start(), "sigpool start")
		r.Cleanup(func() { p.Pool.Stop() })
		kv, err := simcore.OpenSimKV(r.SubDir("db"+name), "channel.db")
		r.Must(err, "open simkv")
		p.KV = kv
		r.Cleanup(func() { p.KV.Close() })
		if cfg.NoRevLogAmt {
			p.DBOpts = append(p.DBOpts, channeldb.OptionNoRevLogAmtData(true))
		}
		db, err := channeldb.CreateWithBackend(kv, p.DBOpts...)
		r.Must(err, "channeldb create")
		p.DB = db
		p.IDPub = keys[0].PubKey()
		return p
	}
	w.A = mkParty("A", keysA, cfg.OpenerIsA)
	w.B = mkParty("B", keysB, !cfg.OpenerIsA)
	w.A.Root, w.B.Root = *rootA, *rootB

	mkCommit := func(local, remote btcutil.Amount, tx *wire.MsgTx) channeldb.ChannelCommitment {
		return channeldb.ChannelCommitment{
			CommitHeight:  0,
			LocalBalance:  lnwire.NewMSatFromSatoshis(local),
			RemoteBalance: lnwire.NewMSatFromSatoshis(remote),
			CommitFee:     commitFee,
			FeePerKw:      btcutil.Amount(cfg.FeePerKw),
			CommitTx:      tx,
			CommitSig:     testSig,
		}
	}
	var scidBytes [8]byte
	binary.BigEndian.PutUint64(scidBytes[:], r.Seed)
	scid := lnwire.NewShortChanIDFromInt(binary.BigEndian.Uint64(scidBytes[:]) >> 1)

	stateA := &chanstate.OpenChannel{
		LocalChanCfg: aliceCfg, RemoteChanCfg: bobCfg,
		IdentityPub: keysA[0].PubKey(), FundingOutpoint: prevOut,
		ShortChannelID: scid, ChanType: cfg.ChanType, IsInitiator: cfg.OpenerIsA,
		Capacity: cfg.CapacitySat, RemoteCurrentRevocation: pointB,
		RevocationProducer: prodA, RevocationStore: shachain.NewRevocationStore(),
		LocalCommitment:  mkCommit(netA, netB, aliceCommitTx),
		RemoteCommitment: mkCommit(netA, netB, bobCommitTx),
		Db:               w.A.DB.ChannelStateDB(), FundingTxn: fundingTx,
		ThawHeight: cfg.ThawHeight,
	}
	stateB := &chanstate.OpenChannel{
		LocalChanCfg: bobCfg, RemoteChanCfg: aliceCfg,
		IdentityPub: keysB[0].PubKey(), FundingOutpoint: prevOut,
		ShortChannelID: scid, ChanType: cfg.ChanType, IsInitiator: !cfg.OpenerIsA,
		Capacity: cfg.CapacitySat, RemoteCurrentRevocation: pointA,
		RevocationProducer: prodB, RevocationStore: shachain.NewRevocationStore(),
		LocalCommitment:  mkCommit(netB, netA, bobCommitTx),
		RemoteCommitment: mkCommit(netB, netA, aliceCommitTx),
		Db:               w.B.DB.ChannelStateDB(), FundingTxn: fundingTx,
		ThawHeight: cfg.ThawHeight,
	}

	obf := lnwallet.DeriveStateHintObfuscator(
		initiatorKey(stateA), responderKey(stateA),
	)
	r.Must(lnwallet.SetStateNumHint(aliceCommitTx, 0, obf), "state hint")
	r.Must(lnwallet.SetStateNumHint(bobCommitTx, 0, obf), "state hint")

	w.A.Chan, err = lnwallet.NewLightningChannel(w.A.Signer, stateA, w.A.Pool)
	r.Must(err, "NewLightningChannel A")
	w.B.Chan, err = lnwallet.NewLightningChannel(w.B.Signer, stateB, w.B.Pool)
	r.Must(err, "NewLightningChannel B")

	addrA := &net.TCPAddr{IP: net.ParseIP("127.0.0.1"), Port: 18556}
	addrB := &net.TCPAddr{IP: net.ParseIP("127.0.0.1"), Port: 18555}
	r.Must(stateA.SyncPending(addrA, 101), "SyncPending A")
	r.Must(stateB.SyncPending(addrB, 101), "SyncPending B")

	// open the revocation windows (channel_ready exchange)
	if cfg.ChanType.IsTaproot() {
		na, err := w.A.Chan.GenMusigNonces()
		r.Must(err, "nonces")
		nb, err := w.B.Chan.GenMusigNonces()
		r.Must(err, "nonces")
		r.Must(w.A.Chan.InitRemoteMusigNonces(nb), "init nonces")
		r.Must(w.B.Chan.InitRemoteMusigNonces(na), "init nonces")
	}
	ka, err := w.A.Chan.NextRevocationKey()
	r.Must(err, "next rev key")
	r.Must(w.B.Chan.InitNextRevocation(ka), "init next rev")
	kb, err := w.B.Chan.NextRevocationKey()
	r.Must(err, "next rev key")
	r.Must(w.A.Chan.InitNextRevocation(kb), "init next rev")
	w.A.LoadStale(r)
	w.B.LoadStale(r)
	return w
}

// LoadStale (re)loads the secondary handle from the database.
func (p *Party) LoadStale(r *simcore.Run) {
	chans, err := p.DB.ChannelStateDB().FetchOpenChannels(p.IDPub)
	if err != nil || len(chans) != 1 {
		r.Fail("reload-error", "%s: FetchOpenChannels for a secondary handle: n=%d err=%v", p.Name, len(chans), err)
	}
	p.Stale = chans[0]
}

func initiatorKey(s *chanstate.OpenChannel) *btcec.PublicKey {
	if s.IsInitiator {
		return s.LocalChanCfg.PaymentBasePoint.PubKey
	}
	return s.RemoteChanCfg.PaymentBasePoint.PubKey
}

func responderKey(s *chanstate.OpenChannel) *btcec.PublicKey {
	if s.IsInitiator {
		return s.RemoteChanCfg.PaymentBasePoint.PubKey
	}
	return s.LocalChanCfg.PaymentBasePoint.PubKey
}

// Peer returns the other party.
func (w *World) Peer(p *Party) *Party {
	if p == w.A {
		return w.B
	}
	return w.A
}

// Reload discards p's in-memory channel object and rebuilds it from p's
// database (new epoch), as lnd does on restart / reconnect. Returns an error
// from the real code paths (FetchOpenChannels / NewLightningChannel).
func (w *World) Reload(p *Party) error {
	p.Reloads++
	if err := p.KV.Reopen(); err != nil {
		w.R.Harness("reopen: %v", err)
	}
	db, err := channeldb.CreateWithBackend(p.KV, p.DBOpts...)
	if err != nil {
		return fmt.Errorf("channeldb open: %w", err)
	}
	p.DB = db
	ch, err := LoadChannel(p.DB, p.IDPub, p.Signer, p.Pool)
	if err != nil {
		return err
	}
	p.Chan = ch
	p.LoadStale(w.R)
	return nil
}

// LoadChannel fetches the single open channel of the node and wraps it.
func LoadChannel(db *channeldb.DB, idPub *btcec.PublicKey, signer input.Signer,
	pool *lnwallet.SigPool) (*lnwallet.LightningChannel, error) {

	chans, err := db.ChannelStateDB().FetchOpenChannels(idPub)
	if err != nil {
		return nil, fmt.Errorf("FetchOpenChannels: %w", err)
	}
	if len(chans) != 1 {
		return nil, fmt.Errorf("FetchOpenChannels returned %d channels, want 1", len(chans))
	}
	ch, err := lnwallet.NewLightningChannel(signer, chans[0], pool)
	if err != nil {
		return nil, fmt.Errorf("NewLightningChannel: %w", err)
	}
	return ch, nil
}

// Preimage returns the deterministic preimage of HTLC payment number n.
func Preimage(n uint64) [32]byte {
	var b [8]byte
	binary.BigEndian.PutUint64(b[:], n)
	return sha256.Sum256(append([]byte("verif-preimage-"), b[:]...))
}

// TxBytes serialises a transaction.
func TxBytes(tx *wire.MsgTx) []byte {
	var buf bytes.Buffer
	_ = tx.Serialize(&buf)
	return buf.Bytes()
}
