package chansim

import (
	"bytes"
	"crypto/sha256"
	"fmt"
	"os"
	"sort"

	"github.com/btcsuite/btcd/btcec/v2"
	"github.com/btcsuite/btcd/chainhash/v2"
	"github.com/lightningnetwork/lnd/channeldb"
	"github.com/lightningnetwork/lnd/graph/db/models"
	"github.com/lightningnetwork/lnd/lntypes"
	"github.com/lightningnetwork/lnd/lnwire"

	"verif/simcore"
)

// DeriveSecret is an independent implementation of BOLT-3
// generate_from_seed for per-commitment secret number h (index 2^48-1-h).
func DeriveSecret(seed chainhash.Hash, h uint64) [32]byte {
	idx := (uint64(1) << 48) - 1 - h
	p := [32]byte(seed)
	for b := 47; b >= 0; b-- {
		if idx&(uint64(1)<<uint(b)) != 0 {
			p[b/8] ^= 1 << uint(b%8)
			p = sha256.Sum256(p[:])
		}
	}
	return p
}

// CommitPoint is secret*G, compressed.
func CommitPoint(secret []byte) []byte {
	_, pub := btcec.PrivKeyFromBytes(secret)
	return pub.SerializeCompressed()
}

// stateDigest renders the durable part of an OpenChannel that lives in memory,
// to compare "what the running node believed" with "what a reload restores".
func stateDigest(st *channeldb.OpenChannel) []string {
	var out []string
	commit := func(label string, c *channeldb.ChannelCommitment) {
		out = append(out, fmt.Sprintf("%s: h=%d lli=%d lhi=%d rli=%d rhi=%d lb=%d rb=%d fee=%d fpk=%d tx=%x sig=%x blob=%v",
			label, c.CommitHeight, c.LocalLogIndex, c.LocalHtlcIndex, c.RemoteLogIndex, c.RemoteHtlcIndex,
			c.LocalBalance, c.RemoteBalance, c.CommitFee, c.FeePerKw, TxBytes(c.CommitTx), c.CommitSig, c.CustomBlob))
		hs := append([]channeldb.HTLC(nil), c.Htlcs...)
		sort.Slice(hs, func(i, j int) bool {
			if hs[i].Incoming != hs[j].Incoming {
				return !hs[i].Incoming
			}
			return hs[i].HtlcIndex < hs[j].HtlcIndex
		})
		for _, h := range hs {
			ob := sha256.Sum256(h.OnionBlob[:])
			out = append(out, fmt.Sprintf("%s.htlc in=%v idx=%d log=%d amt=%d hash=%x exp=%d out=%d sig=%x onion=%x extra=%x",
				label, h.Incoming, h.HtlcIndex, h.LogIndex, h.Amt, h.RHash, h.RefundTimeout, h.OutputIndex, h.Signature, ob[:4], []byte(h.ExtraData)))
		}
	}
	commit("local", &st.LocalCommitment)
	commit("remote", &st.RemoteCommitment)
	pk := func(k *btcec.PublicKey) string {
		if k == nil {
			return "nil"
		}
		return fmt.Sprintf("%x", k.SerializeCompressed())
	}
	out = append(out, "remoteCurrentRevocation="+pk(st.RemoteCurrentRevocation))
	out = append(out, "remoteNextRevocation="+pk(st.RemoteNextRevocation))
	var b bytes.Buffer
	if st.RevocationStore != nil {
		st.RevocationStore.Encode(&b)
	}
	out = append(out, fmt.Sprintf("revocationStore=%x", sha256.Sum256(b.Bytes())))
	b.Reset()
	st.RevocationProducer.Encode(&b)
	out = append(out, fmt.Sprintf("revocationProducer=%x", b.Bytes()))
	// TotalMSatSent/Received are lifetime statistics flushed with the next
	// commitment write; they are not channel state a signature covers and
	// are deliberately not compared.
	out = append(out, fmt.Sprintf("type=%d initiator=%v cap=%d scid=%v funding=%v thaw=%d status=%v",
		st.ChanType, st.IsInitiator, st.Capacity, st.ShortChannelID, st.FundingOutpoint, st.ThawHeight, st.ChanStatus()))
	out = append(out, fmt.Sprintf("localCfg=%+v", cfgDigest(&st.LocalChanCfg)))
	out = append(out, fmt.Sprintf("remoteCfg=%+v", cfgDigest(&st.RemoteChanCfg)))
	return out
}

func cfgDigest(c *channeldb.ChannelConfig) string {
	return fmt.Sprintf("%+v %+v ms=%x rev=%x pay=%x delay=%x htlc=%x", c.ChannelStateBounds, c.CommitmentParams,
		c.MultiSigKey.PubKey.SerializeCompressed(), c.RevocationBasePoint.PubKey.SerializeCompressed(),
		c.PaymentBasePoint.PubKey.SerializeCompressed(), c.DelayBasePoint.PubKey.SerializeCompressed(),
		c.HtlcBasePoint.PubKey.SerializeCompressed())
}

func diffDigest(a, b []string) string {
	for i := 0; i < len(a) || i < len(b); i++ {
		var x, y string
		if i < len(a) {
			x = a[i]
		}
		if i < len(b) {
			y = b[i]
		}
		if x != y {
			if len(x) > 300 {
				x = x[:300] + "…"
			}
			if len(y) > 300 {
				y = y[:300] + "…"
			}
			return fmt.Sprintf("before crash: %q / after reload: %q", x, y)
		}
	}
	return ""
}

// Cut drops the connection now: everything still queued is lost, both sides
// rebuild their channel from disk and resynchronise.
func (s *Sim) Cut(depth int) {
	r := s.R
	s.faults++
	lost := [2]int{len(s.Q[0]), len(s.Q[1])}
	s.Q[0], s.Q[1] = nil, nil
	var before [2][]string
	for x := 0; x < 2; x++ {
		if !s.injected[x] {
			before[x] = stateDigest(s.P[x].Chan.State())
		}
	}
	r.Logf("CUT: lost A>B:%d B>A:%d messages; both sides reload from disk", lost[0], lost[1])
	for x := 0; x < 2; x++ {
		if err := s.W.Reload(s.P[x]); err != nil {
			r.Fail("reload-error", "%s: channel does not reopen from its database: %v", nm(x), err)
		}
		s.M.Reload(x)
		if before[x] != nil {
			after := stateDigest(s.P[x].Chan.State())
			if d := diffDigest(before[x], after); d != "" {
				r.Fail("reload-differs", "%s: durable state the running node held differs from what reload restores: %s", nm(x), d)
			}
		}
		s.injected[x] = false
	}
	r.Count("reloads")
	if os.Getenv("VERIF_DEBUG") != "" {
		for x := 0; x < 2; x++ {
			st := s.P[x].Chan.State()
			a, _ := st.UnsignedAckedUpdates()
			b, _ := st.RemoteUnsignedLocalUpdates()
			r.Logf("DEBUG %s after reload: unsignedAcked=%d remoteUnsignedLocal=%d local(h=%d lli=%d rli=%d fpk=%d) remote(h=%d lli=%d rli=%d fpk=%d)", nm(x), len(a), len(b),
				st.LocalCommitment.CommitHeight, st.LocalCommitment.LocalLogIndex, st.LocalCommitment.RemoteLogIndex, st.LocalCommitment.FeePerKw,
				st.RemoteCommitment.CommitHeight, st.RemoteCommitment.LocalLogIndex, st.RemoteCommitment.RemoteLogIndex, st.RemoteCommitment.FeePerKw)
			for _, u := range b {
				r.Logf("DEBUG   remoteUnsignedLocal: idx=%d %T", u.LogIndex, u.UpdateMsg)
			}
		}
	}
	s.CheckAll()
	s.CheckReloaded()
	s.Resync(depth)
}

// CheckReloaded compares the reloaded in-memory state machines with the model
// through the exported observers.
func (s *Sim) CheckReloaded() {
	r := s.R
	for x := 0; x < 2; x++ {
		o := 1 - x
		ch := s.P[x].Chan
		m := s.M
		// own updates not yet on the peer's newest commitment / peer updates
		// not yet on our commitment, as counted by the real state machine
		wantLocalOnRemote := uint64(len(m.S[x].Log) - m.lastSigned(x).N[x])
		if got := ch.NumPendingUpdates(lntypes.Local, lntypes.Remote); got != wantLocalOnRemote {
			r.Fail("pending-updates", "%s after reload: %d own updates await our signature, model expects %d", nm(x), got, wantLocalOnRemote)
		}
		wantRemoteOnLocal := uint64(m.S[x].Recvd - m.S[x].LocalTail.N[o])
		if got := ch.NumPendingUpdates(lntypes.Remote, lntypes.Local); got != wantRemoteOnLocal {
			r.Fail("pending-updates", "%s after reload: %d peer updates await the peer's signature, model expects %d", nm(x), got, wantRemoteOnLocal)
		}
		if got, want := ch.OweCommitment(), m.Owes(x); got != want {
			r.Fail("pending-updates", "%s after reload: OweCommitment=%v, model says %v", nm(x), got, want)
		}
		s.checkFwdPkgs(x)
		// A resolution this node issued and that survived the reload (every
		// removal still in the model's log did: unsigned ones were dropped
		// with the cut) must still be known to the reloaded object: the link
		// re-issues resolutions of its forwarding packages after a restart
		// and relies on the channel to refuse the second one. Accepting it
		// would remove one HTLC twice. (Any error is a refusal; an HTLC that
		// has left the logs altogether is "unknown".) At most the last four.
		tried := 0
		for i := len(m.S[x].Log) - 1; i >= 0 && tried < 4; i-- {
			u := m.S[x].Log[i]
			if u.Kind != USettle && u.Kind != UFail && u.Kind != UMalformed {
				continue
			}
			tried++
			var err error
			var how string
			switch (u.HtlcID + uint64(i)) % 3 {
			case 0:
				how = "FailHTLC"
				err = ch.FailHTLC(u.HtlcID, []byte{0xdd}, nil, nil, nil)
			case 1:
				how = "MalformedFailHTLC"
				var sha [32]byte
				err = ch.MalformedFailHTLC(u.HtlcID, lnwire.CodeInvalidOnionHmac, sha, nil)
			default:
				how = "SettleHTLC"
				err = ch.SettleHTLC(s.preimageOfPeerAdd(o, u.HtlcID), u.HtlcID, nil, nil, nil)
			}
			r.Count("probe_second_resolution_after_reload_refused")
			if err == nil {
				r.Fail("second-resolution-accepted", "%s after reload: %s for the peer's HTLC id=%d is accepted although this node's %s for it survived the reload (the object that issued it refuses a second resolution)",
					nm(x), how, u.HtlcID, u.Kind)
			}
		}
		next, err := ch.NextLocalHtlcIndex()
		if err != nil {
			r.Fail("reload-error", "%s.NextLocalHtlcIndex: %v", nm(x), err)
		}
		if want := m.NextHtlcID(x); next != want {
			r.Fail("htlc-index", "%s after reload: next local HTLC index %d, model expects %d", nm(x), next, want)
		}
	}
}

// preimageOfPeerAdd: the preimage of the HTLC with that id in side o's log.
func (s *Sim) preimageOfPeerAdd(o int, id uint64) [32]byte {
	for _, u := range s.M.S[o].Log {
		if u.Kind == UAdd && u.HtlcID == id {
			return Preimage(u.PayNo)
		}
	}
	return [32]byte{}
}

// checkFwdPkgs: the forwarding packages on disk after a reload are exactly
// those the node wrote when it processed revocations, with the same adds and
// settles/fails, and an add is marked acked iff a removal issued with its
// reference has been covered by one of our signatures.
func (s *Sim) checkFwdPkgs(x int) {
	r := s.R
	pkgs, err := s.P[x].Chan.LoadFwdPkgs()
	if err != nil {
		r.Fail("reload-error", "%s.LoadFwdPkgs: %v", nm(x), err)
	}
	seen := map[uint64]bool{}
	signed := s.M.lastSigned(x).N[x]
	for _, p := range pkgs {
		rec, ok := s.Fwd[x][p.Height]
		if !ok {
			r.Fail("fwdpkg", "%s after reload: forwarding package at height %d that the running node never wrote", nm(x), p.Height)
		}
		seen[p.Height] = true
		if len(p.Adds) != len(rec.Adds) || len(p.SettleFails) != len(rec.SettleFails) {
			r.Fail("fwdpkg", "%s after reload: forwarding package %d has %d adds / %d settle-fails, the node wrote %d / %d", nm(x), p.Height,
				len(p.Adds), len(p.SettleFails), len(rec.Adds), len(rec.SettleFails))
		}
		for i := range p.Adds {
			if !bytes.Equal(wireBytes(p.Adds[i].UpdateMsg), rec.Adds[i]) {
				r.Fail("fwdpkg", "%s after reload: add %d of forwarding package %d differs from what was written", nm(x), i, p.Height)
			}
			want := false
			for j := 0; j < signed && j < len(s.M.S[x].Log); j++ {
				u := s.M.S[x].Log[j]
				if u.HasSrc && u.SrcH == p.Height && int(u.SrcI) == i {
					want = true
				}
			}
			if got := p.AckFilter.Contains(uint16(i)); got != want {
				r.Fail("fwdpkg-ack", "%s after reload: add %d of forwarding package %d acked=%v, but a signed settle/fail for it exists=%v", nm(x), i, p.Height, got, want)
			}
		}
		for i := range p.SettleFails {
			if !bytes.Equal(wireBytes(p.SettleFails[i].UpdateMsg), rec.SettleFails[i]) {
				r.Fail("fwdpkg", "%s after reload: settle/fail %d of forwarding package %d differs from what was written", nm(x), i, p.Height)
			}
		}
	}
	for h := range s.Fwd[x] {
		if !seen[h] {
			r.Fail("fwdpkg", "%s after reload: forwarding package of height %d is gone", nm(x), h)
		}
	}
	r.Count("fwdpkg_checks")
}

// Resync exchanges channel_reestablish and checks the retransmissions.
func (s *Sim) Resync(depth int) {
	r := s.R
	var sync [2]*lnwire.ChannelReestablish
	strip := s.Mode.StripDLP && r.Chance(1, 3)
	for x := 0; x < 2; x++ {
		msg, err := s.P[x].Chan.State().ChanSyncMsg()
		if err != nil {
			r.Fail("sync-error", "%s.ChanSyncMsg: %v", nm(x), err)
		}
		if msg.NextLocalCommitHeight != s.M.S[x].LocalTail.Height+1 || msg.RemoteCommitTailHeight != s.M.S[x].RemoteTail.Height {
			r.Fail("sync-heights", "%s announces next_commitment_number=%d next_revocation_number=%d, model expects %d and %d",
				nm(x), msg.NextLocalCommitHeight, msg.RemoteCommitTailHeight, s.M.S[x].LocalTail.Height+1, s.M.S[x].RemoteTail.Height)
		}
		if strip {
			msg.LocalUnrevokedCommitPoint = nil
			msg.LastRemoteCommitSecret = [32]byte{}
		}
		sync[x] = msg
	}
	if strip {
		r.Count("probe_sync_without_dlp")
	}
	first := r.Draw(2)
	for i := 0; i < 2; i++ {
		y := first
		if i == 1 {
			y = 1 - first
		}
		s.processSync(y, sync[1-y])
		if i == 0 && s.Mode.Cuts && depth < 2 && !s.winding && r.Chance(1, 10) {
			r.Count("fault_cut_during_sync")
			r.Logf("CUT during resynchronisation (after %s processed the peer's reestablish)", nm(y))
			s.Cut(depth + 1)
			return
		}
	}
}

func (s *Sim) processSync(y int, msg *lnwire.ChannelReestablish) {
	r := s.R
	exp := s.M.ExpectRetransmit(y)
	out, opened, closed, err := s.P[y].Chan.ProcessChanSyncMsg(ctxb, msg)
	if err != nil && exp.MaySign && classify(err) == errConstraint {
		// The documented "sign a new commitment inside resync" branch ran
		// SignNextCommitment, and the commitment it owes violates a channel
		// constraint (e.g. the opener's own update_fee crossing the peer's
		// add pushes the opener below the reserve). The same call fails the
		// same way without any cut (opSign treats it as a constraint
		// outcome); it is not a resynchronisation failure. Narrow: only when
		// the model says this side signs inside resync, only constraint
		// classes.
		s.constraintAbort(nm(y)+".ProcessChanSyncMsg (sign inside resync)", err)
	}
	if err != nil {
		r.Fail("sync-error", "%s.ProcessChanSyncMsg fails against an honest peer that lost only undelivered data: %v", nm(y), err)
	}
	desc := func(ms []lnwire.Message) string {
		var p []string
		for _, m := range ms {
			p = append(p, m.MsgType().String())
		}
		return fmt.Sprint(p)
	}
	// Build the expected shape.
	type item struct {
		kind string // "rev", "upd", "sig", "newsig"
		upd  *Upd
	}
	var want []item
	sigPart := func() {
		for i := range exp.Updates {
			want = append(want, item{"upd", &exp.Updates[i]})
		}
		want = append(want, item{"sig", nil})
	}
	switch {
	case exp.Rev && exp.Sig && exp.RevFirst:
		want = append(want, item{"rev", nil})
		sigPart()
	case exp.Rev && exp.Sig:
		sigPart()
		want = append(want, item{"rev", nil})
	case exp.Rev:
		want = append(want, item{"rev", nil})
	case exp.Sig:
		sigPart()
	}
	got := out
	extraSig := false
	if exp.MaySign && len(got) == len(want)+1 {
		if _, ok := got[len(got)-1].(*lnwire.CommitSig); ok {
			extraSig = true
			got = got[:len(got)-1]
		}
	}
	if len(got) != len(want) {
		r.Fail("retransmit-mismatch", "%s retransmits %s; the model says the peer is missing rev=%v sig=%v (with %d updates, revFirst=%v, maySign=%v)",
			nm(y), desc(out), exp.Rev, exp.Sig, len(exp.Updates), exp.RevFirst, exp.MaySign)
	}
	for i, it := range want {
		m := got[i]
		switch it.kind {
		case "rev":
			rev, ok := m.(*lnwire.RevokeAndAck)
			if !ok {
				r.Fail("retransmit-mismatch", "%s retransmits %s; position %d should be the revocation (original order: revFirst=%v)", nm(y), desc(out), i, exp.RevFirst)
			}
			s.checkRelease(y, s.M.S[y].LocalTail.Height-1, rev, "ProcessChanSyncMsg")
			r.Count("probe_retransmit_rev")
		case "upd":
			if !bytes.Equal(wireBytes(m), it.upd.Wire) {
				r.Fail("retransmit-mismatch", "%s retransmits %s; position %d is not the original %s update byte for byte", nm(y), desc(out), i, it.upd.Kind)
			}
		case "sig":
			cs, ok := m.(*lnwire.CommitSig)
			if !ok {
				r.Fail("retransmit-mismatch", "%s retransmits %s; position %d should be the commitment signature", nm(y), desc(out), i)
			}
			if !s.W.Cfg.ChanType.IsTaproot() && s.lastSig[y] != nil && !bytes.Equal(wireBytes(cs), s.lastSig[y]) {
				r.Fail("retransmit-mismatch", "%s retransmits a commitment signature that differs from the one it originally sent", nm(y))
			}
			r.Count("probe_retransmit_sig")
		}
	}
	if exp.Rev && exp.Sig {
		if exp.RevFirst {
			r.Count("probe_retransmit_rev_then_sig")
		} else {
			r.Count("probe_retransmit_sig_then_rev")
		}
	}
	// circuit keys of the pending commitment
	if exp.Sig {
		var wo, wc []uint64
		for _, u := range exp.Updates {
			if u.Kind == UAdd {
				wo = append(wo, u.Open)
			} else if u.Kind == USettle || u.Kind == UFail {
				wc = append(wc, u.Close)
			}
		}
		if !sameKeys(opened, wo) || !sameKeys(closed, wc) {
			r.Fail("circuit-keys", "%s: circuit keys returned with the retransmitted commitment (opened %v closed %v) differ from the updates it covers (opened %v closed %v)",
				nm(y), keyIDs(opened), keyIDs(closed), wo, wc)
		}
	} else if len(opened)+len(closed) != 0 {
		r.Fail("circuit-keys", "%s returns circuit keys without retransmitting a commitment", nm(y))
	}
	for _, m := range got {
		s.Q[y] = append(s.Q[y], m)
	}
	if extraSig {
		c := s.M.Sign(y)
		cs := out[len(out)-1].(*lnwire.CommitSig)
		s.lastSig[y] = wireBytes(cs)
		s.Q[y] = append(s.Q[y], cs)
		r.Count("probe_sync_sign_inside")
		r.Logf("%s signed a NEW commitment inside resync -> peer height %d", nm(y), c.Height)
	}
	r.Logf("%s.ProcessChanSyncMsg -> %s", nm(y), desc(out))
}

func keyIDs(k []models.CircuitKey) []uint64 {
	var o []uint64
	for _, c := range k {
		o = append(o, c.HtlcID)
	}
	sort.Slice(o, func(i, j int) bool { return o[i] < o[j] })
	return o
}

func sameKeys(k []models.CircuitKey, want []uint64) bool {
	got := keyIDs(k)
	w := append([]uint64(nil), want...)
	sort.Slice(w, func(i, j int) bool { return w[i] < w[j] })
	if len(got) != len(w) {
		return false
	}
	for i := range w {
		if got[i] != w[i] {
			return false
		}
	}
	return true
}

// Fork copies both databases as they are durable right now and returns an
// independent simulation that starts with both nodes restarted from them.
// It is "a crash of both nodes at this instant".
func (s *Sim) Fork() *Sim {
	r := s.R
	f := &Sim{R: r, W: &World{R: r, Cfg: s.W.Cfg, InitBalA: s.W.InitBalA, InitBalB: s.W.InitBalB, FundingOut: s.W.FundingOut},
		Mode: s.Mode, isFork: true, payNo: s.payNo + 1000000, circNo: s.circNo + 1000000, faults: s.faults + 1}
	f.Mode.ForkReload = 0
	f.Mode.OnRevoke, f.Mode.OnEvent, f.Mode.OnPreRevoke, f.Mode.OnFinish = nil, nil, nil, nil
	f.M = s.M.Clone()
	for x := 0; x < 2; x++ {
		np := s.ForkParty(x)
		f.P[x] = np
		f.M.Reload(x)
		f.Refs[x] = map[uint64]channeldb.AddRef{}
		for k, v := range s.Refs[x] {
			f.Refs[x][k] = v
		}
		f.Fwd[x] = map[uint64]*FwdRec{}
		for k, v := range s.Fwd[x] {
			f.Fwd[x][k] = v
		}
		f.RevMsgs[x] = map[uint64][]byte{}
		for k, v := range s.RevMsgs[x] {
			f.RevMsgs[x][k] = v
		}
		f.lastSig[x] = s.lastSig[x]
	}
	f.W.A, f.W.B = f.P[0], f.P[1]
	return f
}

// ForkParty copies side x's database as it is durable right now and reloads
// the channel from the copy (a restart of that node on a scratch disk).
func (s *Sim) ForkParty(x int) *Party {
	r := s.R
	s.forkNo++
	p := s.P[x]
	kv, err := p.KV.Fork(r.SubDir(fmt.Sprintf("fork%d%s", s.forkNo, p.Name)))
	r.Must(err, "fork db")
	np := &Party{Name: p.Name, Keys: p.Keys, Signer: p.Signer, Pool: p.Pool, KV: kv,
		IDPub: p.IDPub, Root: p.Root, DBOpts: p.DBOpts, Opener: p.Opener}
	db, err := channeldb.CreateWithBackend(kv, np.DBOpts...)
	if err != nil {
		r.Fail("reload-error", "%s: database does not reopen: %v", nm(x), err)
	}
	np.DB = db
	ch, err := LoadChannel(db, np.IDPub, np.Signer, np.Pool)
	if err != nil {
		r.Fail("reload-error", "%s: channel does not reopen from its database after a crash at this point: %v", nm(x), err)
	}
	np.Chan = ch
	np.LoadStale(r)
	if p.Stale != nil {
		aged := *p.Stale //nolint:govet // deliberate value copy of an idle record
		aged.Db = db.ChannelStateDB()
		np.Aged = &aged
	}
	return np
}

// Close releases a fork's databases.
func (f *Sim) Close() {
	for x := 0; x < 2; x++ {
		f.P[x].KV.Close()
	}
}

// ForkCheck is the C02 crash point: crash both nodes now, examine what a
// reload gives, optionally resume to wind-down on the fork.
func (s *Sim) ForkCheck(resume bool) {
	r := s.R
	var before [2][]string
	for x := 0; x < 2; x++ {
		if !s.injected[x] {
			before[x] = stateDigest(s.P[x].Chan.State())
		}
	}
	f := s.Fork()
	defer f.Close()
	r.Count("crash_points")
	for x := 0; x < 2; x++ {
		if before[x] != nil {
			if d := diffDigest(before[x], stateDigest(f.P[x].Chan.State())); d != "" {
				r.Fail("reload-differs", "%s (crash after event %d): durable state the running node held differs from what reload restores: %s", nm(x), s.events, d)
			}
		}
	}
	f.CheckAll()
	f.CheckReloaded()
	if resume {
		r.Count("crash_points_resumed")
		r.Logf("FORK: crash of both nodes after event %d, resuming on the fork", s.events)
		func() {
			defer func() {
				if p := recover(); p != nil {
					if _, ok := p.(abortRun); ok {
						s.aborted = false
						return
					}
					panic(p)
				}
			}()
			f.Resync(2)
			f.WindDown(true)
		}()
		r.Logf("FORK: done")
	}
}

var _ = simcore.ErrSimIO

func sha256sum(b []byte) [32]byte { return sha256.Sum256(b) }
