package chansim

import (
	"verif/simcore"
)

// RunRevStore is filled in by revsim.go.
func RunRevStore(r *simcore.Run, thorough bool) { runRevStore(r, thorough) }
