// Command run_closersim is the worker binary of the cooperative-close
// simulator (property C17). ./check starts 16 of these with different shards.
//
//go:debug randseednop=0
package main

import (
	"fmt"
	"os"
	"strconv"

	"verif/closersim"
	"verif/simcore"
)

func main() {
	prop := os.Getenv("VERIF_PROP")
	if prop == "" {
		prop = "C17"
	}
	if prop != "C17" {
		fmt.Fprintf(os.Stderr, "HARNESS: unknown VERIF_PROP %q (run_closersim serves C17)\n", prop)
		os.Exit(2)
	}
	// Debugging aid: VERIF_C17_TRACE_SEED=<run seed> (or VERIF_C17_TRACE_IDX=<i>
	// together with VERIF_SEED) executes that single run and prints its
	// full event trace.
	if v, i := os.Getenv("VERIF_C17_TRACE_SEED"), os.Getenv("VERIF_C17_TRACE_IDX"); v != "" || i != "" {
		var seed uint64
		if v != "" {
			seed, _ = strconv.ParseUint(v, 10, 64)
		} else {
			bs, _ := strconv.ParseUint(os.Getenv("VERIF_SEED"), 10, 64)
			idx, _ := strconv.ParseUint(i, 10, 64)
			seed = simcore.SplitMix(bs, idx)
		}
		tier := os.Getenv("VERIF_TIER")
		if tier == "" {
			tier = "quick"
		}
		out := simcore.Execute(closersim.Run, simcore.NewTape(seed), seed, tier)
		fmt.Printf("seed=%d arm=%s steps=%d nontrivial=%v hash=%016x\n", seed, out.Arm, out.Steps, out.Nontrivial, out.Hash)
		for _, l := range out.Trace {
			fmt.Println("  | " + l)
		}
		if out.Violation != nil {
			fmt.Printf("VIOLATION %s: %s\n", out.Violation.Code, out.Violation.Msg)
		}
		if out.HarnessErr != "" {
			fmt.Printf("HARNESS: %s\n", out.HarnessErr)
		}
		os.Exit(0)
	}
	simcore.WorkerMain(simcore.Spec{Property: "C17", Engine: "closersim", Run: closersim.Run})
}
