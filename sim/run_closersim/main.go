//go:debug randseednop=0
package main

import (
	"fmt"

	"github.com/lightningnetwork/lnd/peer"
)

func main() {
	fmt.Println(peer.NewMusigChanCloser(nil) != nil)
}
