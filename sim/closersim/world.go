// Package closersim is the cooperative-close simulator (property C17): two real
// lnwallet.LightningChannel ends (built by chansim), brought to an HTLC-free
// state by a seeded history, are closed through
//
//   - the direct API (CreateCloseProposal / CompleteCooperativeClose) for fee
//     sweeps from zero to above the payer's balance,
//   - two real legacy chancloser.ChanCloser state machines exchanging
//     Shutdown / ClosingSigned through a tape-controlled transport,
//   - two RBF-coop state machines (rbf_coop_states.go) for which the simulator
//     plays protofsm's executor.
//
// Every closing transaction that appears is judged by an oracle that is
// computed from the simulator's own bookkeeping of the two balances (never
// from lnd's channel state): exact output amounts, dust omission, value
// conservation, byte-identical transactions on both sides, and an independent
// script-engine run against an independently derived funding output.
package closersim

import (
	"bytes"
	"crypto/sha256"
	"fmt"
	"sort"

	"github.com/btcsuite/btcd/btcec/v2"
	"github.com/btcsuite/btcd/btcec/v2/schnorr"
	"github.com/btcsuite/btcd/btcec/v2/schnorr/musig2"
	"github.com/btcsuite/btcd/btcutil/v2"
	"github.com/btcsuite/btcd/txscript/v2"
	"github.com/btcsuite/btcd/wire/v2"
	"github.com/lightningnetwork/lnd/lnwallet"
	"github.com/lightningnetwork/lnd/lnwire"

	"verif/chansim"
	"verif/simcore"
)

// Delivery script kinds.
const (
	kP2WPKH = iota
	kP2WSH
	kP2TR
	kAnySegwit
	kP2PKH
	kP2SH
	kOpReturn
	nScriptKinds
)

var scriptKindName = [...]string{"p2wpkh", "p2wsh", "p2tr", "segwit-v2", "p2pkh", "p2sh", "op_return"}

// segwitKind reports whether lnd accepts the script kind from a peer in a
// shutdown message (BOLT 2 with option_shutdown_anysegwit).
func segwitKind(k int) bool { return k <= kAnySegwit }

func nm(x int) string { return [...]string{"A", "B"}[x] }

// Env is the world of one run.
type Env struct {
	R      *simcore.Run
	W      *chansim.World
	Cfg    chansim.Config
	Ch     [2]*lnwallet.LightningChannel
	Opener int
	// Bal are the simulator's own books: the initial split moved only by the
	// HTLC amounts it settled. The opener's figure includes the commitment
	// fee and the anchors it fronts, so Bal[0]+Bal[1] == capacity at all
	// times. This is "its balance (with the dangling commitment fee and
	// anchor amounts credited back to the opener)" of the property.
	Bal  [2]lnwire.MilliSatoshi
	Dust [2]btcutil.Amount
	Cap  btcutil.Amount

	Script     [2][]byte

	// AltScripts: delivery scripts a party switched to in a later RBF round

	// (closer_script of a later closing_complete may differ from the shutdown script)

	AltScripts [2][][]byte
	ScriptKind [2]int

	Taproot bool
	Pub     [2]*btcec.PublicKey
	// independently derived funding output
	FundingPk     []byte
	WitnessScript []byte
	ChanID        lnwire.ChannelID

	Validated int // fully signed closing txs that passed the script engine
	payNo     uint64
}

func mkScript(kind int, tag byte) []byte {
	h20 := bytes.Repeat([]byte{tag}, 20)
	h32 := bytes.Repeat([]byte{tag}, 32)
	switch kind {
	case kP2WPKH:
		return append([]byte{txscript.OP_0, 0x14}, h20...)
	case kP2WSH:
		return append([]byte{txscript.OP_0, 0x20}, h32...)
	case kP2TR:
		k, _ := btcec.PrivKeyFromBytes(h32)
		return append([]byte{txscript.OP_1, 0x20}, schnorr.SerializePubKey(k.PubKey())...)
	case kAnySegwit:
		return append([]byte{txscript.OP_2, 0x10}, h32[:16]...)
	case kP2PKH:
		s := append([]byte{txscript.OP_DUP, txscript.OP_HASH160, 0x14}, h20...)
		return append(s, txscript.OP_EQUALVERIFY, txscript.OP_CHECKSIG)
	case kP2SH:
		s := append([]byte{txscript.OP_HASH160, 0x14}, h20...)
		return append(s, txscript.OP_EQUAL)
	default:
		return []byte{txscript.OP_RETURN, 0x04, tag, tag, tag, tag}
	}
}

// deriveFunding computes the funding output from the two funding keys alone
// (BOLT 3: 2-of-2 with lexicographically ordered keys in a P2WSH; simple
// taproot channels: BIP-86 tweaked musig2 aggregate of the sorted keys).
func (e *Env) deriveFunding() {
	r := e.R
	a := e.Pub[0].SerializeCompressed()
	b := e.Pub[1].SerializeCompressed()
	if e.Taproot {
		agg, _, _, err := musig2.AggregateKeys(
			[]*btcec.PublicKey{e.Pub[0], e.Pub[1]}, true, musig2.WithBIP86KeyTweak(),
		)
		r.Must(err, "musig2 aggregate")
		pk, err := txscript.PayToTaprootScript(agg.FinalKey)
		r.Must(err, "p2tr script")
		e.FundingPk = pk
	} else {
		if bytes.Compare(a, b) > 0 {
			a, b = b, a
		}
		ws, err := txscript.NewScriptBuilder().AddOp(txscript.OP_2).AddData(a).AddData(b).
			AddOp(txscript.OP_2).AddOp(txscript.OP_CHECKMULTISIG).Script()
		r.Must(err, "multisig script")
		e.WitnessScript = ws
		h := sha256.Sum256(ws)
		e.FundingPk = append([]byte{txscript.OP_0, 0x20}, h[:]...)
	}
	// harness sanity: lnd's own view of the funding output must be the same,
	// otherwise the channel pair was built wrongly (not a C17 matter).
	for x := 0; x < 2; x++ {
		out := e.Ch[x].FundingTxOut()
		if !bytes.Equal(out.PkScript, e.FundingPk) || out.Value != int64(e.Cap) {
			r.Harness("funding output of %s (%x, %d) differs from the independent derivation (%x, %d)",
				nm(x), out.PkScript, out.Value, e.FundingPk, e.Cap)
		}
	}
}

// verifyWitness runs the script engine on a fully signed closing transaction
// against the independently derived funding output.
func (e *Env) verifyWitness(tx *wire.MsgTx, what string) {
	r := e.R
	if len(tx.TxIn) != 1 || tx.TxIn[0].PreviousOutPoint != e.W.FundingOut {
		r.Fail("wrong-input", "%s: closing tx does not spend exactly the funding outpoint %v", what, e.W.FundingOut)
	}
	if len(tx.TxIn[0].Witness) == 0 {
		r.Fail("witness-invalid", "%s: completed closing tx carries no witness", what)
	}
	fetcher := txscript.NewCannedPrevOutputFetcher(e.FundingPk, int64(e.Cap))
	hashes := txscript.NewTxSigHashes(tx, fetcher)
	vm, err := txscript.NewEngine(e.FundingPk, tx, 0, txscript.StandardVerifyFlags, nil, hashes, int64(e.Cap), fetcher)
	if err != nil {
		r.Fail("witness-invalid", "%s: script engine refuses the completed closing tx: %v", what, err)
	}
	if err := vm.Execute(); err != nil {
		r.Fail("witness-invalid", "%s: completed closing tx %v is NOT valid against the funding output: %v", what, tx.TxHash(), err)
	}
	e.Validated++
	r.Count("tx_validated")
}

// verifyECDSA checks one party's raw signature over tx (non-taproot).
func (e *Env) verifyECDSA(tx *wire.MsgTx, signer int, sig interface {
	Verify([]byte, *btcec.PublicKey) bool
}) bool {
	fetcher := txscript.NewCannedPrevOutputFetcher(e.FundingPk, int64(e.Cap))
	hashes := txscript.NewTxSigHashes(tx, fetcher)
	h, err := txscript.CalcWitnessSigHash(e.WitnessScript, hashes, txscript.SigHashAll, tx, 0, int64(e.Cap))
	e.R.Must(err, "sighash")
	return sig.Verify(h, e.Pub[signer])
}

func txBytesNoWitness(tx *wire.MsgTx) []byte {
	var b bytes.Buffer
	_ = tx.SerializeNoWitness(&b)
	return b.Bytes()
}

// txCtx says under which terms a closing tx was built.
type txCtx struct {
	fee   btcutil.Amount
	payer int
	what  string
	// rbfOpts: built with the RBF-coop options (custom sequence); BOLT 2
	// simple-close then zeroes an OP_RETURN output, which the property does
	// not speak about, so such an output's amount is not judged.
	rbfOpts bool
}

// expected returns the amounts the property demands: floor of each balance in
// satoshi, the payer's reduced by the fee. ok=false: the payer cannot pay.
func (e *Env) expected(fee btcutil.Amount, payer int) (exp [2]int64, ok bool) {
	exp = [2]int64{int64(e.Bal[0] / 1000), int64(e.Bal[1] / 1000)}
	exp[payer] -= int64(fee)
	return exp, exp[payer] >= 0
}

// checkOutputs is the value oracle of the property.
func (e *Env) checkOutputs(tx *wire.MsgTx, c txCtx) {
	r := e.R
	exp, ok := e.expected(c.fee, c.payer)
	if !ok {
		r.Fail("fee-exceeds-balance", "%s: a closing tx was built for fee %d although the paying party %s only has %d sat",
			c.what, c.fee, nm(c.payer), e.Bal[c.payer]/1000)
	}
	if len(tx.TxIn) != 1 || tx.TxIn[0].PreviousOutPoint != e.W.FundingOut {
		r.Fail("wrong-input", "%s: closing tx does not spend exactly the funding outpoint", c.what)
	}
	var got [2]int64
	var present [2]bool
	var sum int64
	for i, o := range tx.TxOut {
		sum += o.Value
		owner := -1
		for x := 0; x < 2; x++ {
			if bytes.Equal(o.PkScript, e.Script[x]) {
				owner = x
			}
			for _, alt := range e.AltScripts[x] {
				if bytes.Equal(o.PkScript, alt) {
					owner = x
				}
			}
		}
		if owner < 0 {
			r.Fail("foreign-output", "%s: output %d (%d sat to %x) belongs to neither delivery script", c.what, i, o.Value, o.PkScript)
		}
		if present[owner] {
			r.Fail("foreign-output", "%s: two outputs pay %s's delivery script", c.what, nm(owner))
		}
		present[owner], got[owner] = true, o.Value
	}
	if sum+int64(c.fee) > int64(e.Cap) {
		r.Fail("overspend", "%s: outputs %d + fee %d = %d sat exceed the capacity %d", c.what, sum, c.fee, sum+int64(c.fee), e.Cap)
	}
	trimmed := false
	for x := 0; x < 2; x++ {
		if c.rbfOpts && e.ScriptKind[x] == kOpReturn {
			if present[x] && got[x] > exp[x] {
				r.Fail("output-amount", "%s: %s's OP_RETURN output carries %d sat, more than its balance %d", c.what, nm(x), got[x], exp[x])
			}
			trimmed = true
			continue
		}
		want := exp[x] >= int64(e.Dust[x])
		role := "non-paying"
		if x == c.payer {
			role = "fee-paying"
		}
		switch {
		case want && !present[x]:
			r.Fail("missing-output", "%s: %s (%s, %s) is owed %d sat >= its dust limit %d, but the closing tx has no output for it (balances A=%d B=%d msat, fee %d)",
				c.what, nm(x), role, e.roleName(x), exp[x], e.Dust[x], e.Bal[0], e.Bal[1], c.fee)
		case !want && present[x]:
			r.Fail("dust-output", "%s: %s (%s) is owed %d sat, below its dust limit %d, yet the closing tx pays it %d sat",
				c.what, nm(x), role, exp[x], e.Dust[x], got[x])
		case want && got[x] != exp[x]:
			r.Fail("output-amount", "%s: %s (%s, %s) receives %d sat, the property demands %d (balance %d msat%s; balances A=%d B=%d msat, capacity %d)",
				c.what, nm(x), role, e.roleName(x), got[x], exp[x], e.Bal[x], feeNote(x == c.payer, c.fee), e.Bal[0], e.Bal[1], e.Cap)
		}
		if !want {
			trimmed = true
			if x == c.payer {
				r.Count("probe_payer_output_trimmed")
			} else {
				r.Count("probe_nonpayer_output_trimmed")
			}
		}
	}
	if !trimmed {
		// nothing omitted: everything but the sub-satoshi remainders of
		// the two balances (0 or 1 sat in total) is accounted for.
		if lost := int64(e.Cap) - sum - int64(c.fee); lost < 0 || lost > 1 {
			r.Fail("overspend", "%s: no output trimmed but outputs %d + fee %d differ from capacity %d by %d", c.what, sum, c.fee, e.Cap, lost)
		}
	}
	r.Count("tx_value_checked")
}

func feeNote(payer bool, fee btcutil.Amount) string {
	if payer {
		return fmt.Sprintf(" minus fee %d", fee)
	}
	return ""
}

func (e *Env) roleName(x int) string {
	if x == e.Opener {
		return "opener"
	}
	return "non-opener"
}

// sameTx demands byte-identical (witness-less) serialisations.
func (e *Env) sameTx(a, b *wire.MsgTx, what string) {
	if !bytes.Equal(txBytesNoWitness(a), txBytesNoWitness(b)) {
		e.R.Fail("tx-mismatch", "%s: the two sides built different closing transactions:\n  A-side: %s\n  B-side: %s", what, txSummary(a), txSummary(b))
	}
}

func txSummary(tx *wire.MsgTx) string {
	var outs []string
	for _, o := range tx.TxOut {
		outs = append(outs, fmt.Sprintf("%d->%x", o.Value, o.PkScript[:min(6, len(o.PkScript))]))
	}
	sort.Strings(outs)
	seq := uint32(0)
	if len(tx.TxIn) > 0 {
		seq = tx.TxIn[0].Sequence
	}
	return fmt.Sprintf("txid=%v v=%d locktime=%d seq=%#x outs=%v", tx.TxHash(), tx.Version, tx.LockTime, seq, outs)
}

// roundTrip pushes a message through the wire codec, as a real connection would.
func (e *Env) roundTrip(m lnwire.Message) lnwire.Message {
	var b bytes.Buffer
	if _, err := lnwire.WriteMessage(&b, m, 0); err != nil {
		e.R.Fail("wire-roundtrip", "a %T produced by the closer cannot be encoded: %v", m, err)
	}
	out, err := lnwire.ReadMessage(&b, 0)
	if err != nil {
		e.R.Fail("wire-roundtrip", "a %T produced by the closer cannot be decoded by the peer: %v", m, err)
	}
	return out
}
