package closersim

import (
	"bytes"
	"errors"
	"fmt"
	"sort"

	"github.com/btcsuite/btcd/btcec/v2/schnorr/musig2"
	"github.com/btcsuite/btcd/btcutil/v2"
	"github.com/btcsuite/btcd/mempool"
	"github.com/btcsuite/btcd/wire/v2"
	"github.com/lightningnetwork/lnd/input"
	"github.com/lightningnetwork/lnd/lntypes"
	"github.com/lightningnetwork/lnd/lnwallet"
	"github.com/lightningnetwork/lnd/lnwire"
	"github.com/lightningnetwork/lnd/peer"

	"verif/simcore"
)

// directCfg are the configuration draws of the direct arm.
type directCfg struct {
	rbfOpts  bool // use the option set of the RBF-coop flow (custom payer/sequence/locktime)
	closer   int  // with rbfOpts: who proposes (and pays)
	lockTime uint32
	nFees    int
}

func drawDirect(t *simcore.Tape) directCfg {
	var d directCfg
	d.rbfOpts = t.CfgDraw(2) == 1
	d.closer = t.CfgDraw(2)
	d.lockTime = []uint32{0, 0, 1, 650_000, 499_999_999}[t.CfgDraw(5)]
	d.nFees = 3 + t.CfgDraw(4)
	return d
}

// feeCandidates lists proposals from zero to above the payer's balance,
// concentrated on the boundaries the property names.
func (e *Env) feeCandidates(payer int) []int64 {
	p := int64(e.Bal[payer] / 1000)
	d := int64(e.Dust[payer])
	set := map[int64]bool{}
	for _, v := range []int64{
		0, 1, 99, 100, 183, 1000, 5000, 50_000,
		p - d - 1, p - d, p - d + 1, p - 1, p, p + 1, p + 1000, 2*p + 7,
		p / 2, p / 3, p / 10, int64(e.Cap), int64(e.Cap) + 1,
	} {
		if v >= 0 {
			set[v] = true
		}
	}
	var out []int64
	for v := range set {
		out = append(out, v)
	}
	sort.Slice(out, func(i, j int) bool { return out[i] < out[j] })
	return out
}

// musigPair creates a fresh pair of real peer.MusigChanCloser adapters that
// have exchanged nonces, as the Shutdown messages (legacy) or shutdown +
// closing_complete (RBF) would.
func (e *Env) musigPair() (m [2]*peer.MusigChanCloser, opts [2][]lnwallet.ChanCloseOpt) {
	r := e.R
	var nonce [2]*musig2.Nonces
	for x := 0; x < 2; x++ {
		m[x] = peer.NewMusigChanCloser(e.Ch[x])
		n, err := m[x].ClosingNonce()
		r.Must(err, "closing nonce")
		nonce[x] = n
	}
	for x := 0; x < 2; x++ {
		m[x].InitRemoteNonce(&musig2.Nonces{PubNonce: nonce[1-x].PubNonce})
		o, err := m[x].ProposalClosingOpts()
		if err != nil {
			r.Fail("api-error", "%s: ProposalClosingOpts with both nonces known: %v", nm(x), err)
		}
		opts[x] = o
	}
	return m, opts
}

// runDirect is the direct arm: for a sweep of fees both sides build and sign
// the closing transaction through the channel API; the simulator compares,
// verifies and completes them.
func runDirect(r *simcore.Run, s setup, d directCfg) {
	e := build(r, s)
	payer := e.Opener
	if d.rbfOpts {
		payer = d.closer
	}
	optSet := "legacy-options"
	if d.rbfOpts {
		optSet = fmt.Sprintf("rbf-options(closer=%s,locktime=%d)", nm(d.closer), d.lockTime)
	}
	r.Logf("direct arm: %s, payer=%s (%s)", optSet, nm(payer), e.roleName(payer))
	cands := e.feeCandidates(payer)

	baseOpts := func(x int) []lnwallet.ChanCloseOpt {
		if !d.rbfOpts {
			return nil
		}
		who := lntypes.Remote
		if x == d.closer {
			who = lntypes.Local
		}
		return []lnwallet.ChanCloseOpt{
			lnwallet.WithCustomSequence(mempool.MaxRBFSequence),
			lnwallet.WithCustomLockTime(d.lockTime),
			lnwallet.WithCustomPayer(who),
		}
	}

	completed := false
	var (
		prevSig, pendSig   [2]input.Signature
		prevFee, pendFee   btcutil.Amount
		havePrev, havePend bool
		prevTx, pendTx     []byte
	)
	for i := 0; i < d.nFees && r.Step(); i++ {
		fee := btcutil.Amount(cands[r.Draw(len(cands))])
		r.Kind("direct:fee")
		if havePend {
			prevFee, prevSig, prevTx, havePrev, havePend = pendFee, pendSig, pendTx, true, false
		}
		last := i == d.nFees-1
		// Without the RBF option set the channel refuses further
		// proposals once a close was completed, so only the last fee of
		// the sweep is completed through the API (every other one is
		// completed by the simulator's own witness assembly).
		complete := d.rbfOpts || last
		what := fmt.Sprintf("direct fee=%d %s", fee, optSet)

		var (
			sig  [2]input.Signature
			tx   [2]*wire.MsgTx
			errs [2]error
			bal  [2]btcutil.Amount
			ms   [2]*peer.MusigChanCloser
			opts [2][]lnwallet.ChanCloseOpt
		)
		if e.Taproot {
			var mo [2][]lnwallet.ChanCloseOpt
			ms, mo = e.musigPair()
			for x := 0; x < 2; x++ {
				opts[x] = append(baseOpts(x), mo[x]...)
			}
		} else {
			opts[0], opts[1] = baseOpts(0), baseOpts(1)
		}
		for x := 0; x < 2; x++ {
			sig[x], tx[x], bal[x], errs[x] = e.Ch[x].CreateCloseProposal(fee, e.Script[x], e.Script[1-x], opts[x]...)
		}
		exp, payable := e.expected(fee, payer)
		if (errs[0] == nil) != (errs[1] == nil) {
			r.Fail("build-asymmetry", "%s: A's CreateCloseProposal says %v, B's says %v: the two sides do not agree on whether this close exists",
				what, errs[0], errs[1])
		}
		if errs[0] != nil {
			survives := payable && (exp[0] >= int64(e.Dust[0]) || exp[1] >= int64(e.Dust[1]))
			if survives && !(d.rbfOpts && (e.ScriptKind[0] == kOpReturn || e.ScriptKind[1] == kOpReturn)) {
				r.Fail("unexpected-refusal", "%s: the payer %s has %d sat >= fee and an output of at least dust remains (A=%d B=%d sat), yet both sides refuse: %v",
					what, nm(payer), e.Bal[payer]/1000, exp[0], exp[1], errs[0])
			}
			if !payable {
				r.Count("probe_fee_above_balance_refused")
			} else {
				r.Count("probe_all_outputs_dust_refused")
			}
			r.Logf("%s: refused by both (%v)", what, errs[0])
			continue
		}
		// both built a transaction
		e.sameTx(tx[0], tx[1], what)
		c := txCtx{fee: fee, payer: payer, what: what, rbfOpts: d.rbfOpts}
		e.checkOutputs(tx[0], c)
		if bal[0] != btcutil.Amount(exp[0]) || bal[1] != btcutil.Amount(exp[1]) {
			if !(d.rbfOpts && (e.ScriptKind[0] == kOpReturn || e.ScriptKind[1] == kOpReturn)) {
				r.Fail("output-amount", "%s: CreateCloseProposal reports final balances A=%d B=%d, the property demands A=%d B=%d",
					what, bal[0], bal[1], exp[0], exp[1])
			}
		}
		if !e.Taproot {
			for x := 0; x < 2; x++ {
				if !e.verifyECDSA(tx[1-x], x, sig[x]) {
					r.Fail("sig-invalid", "%s: %s's signature does not verify over the transaction %s built", what, nm(x), nm(1-x))
				}
			}
			// the simulator's own completion: BOLT-3 witness 0 <sig_lo> <sig_hi> <script>
			e.verifyWitness(e.assemble(tx[0], sig), what+" (simulator-completed)")
		}
		r.Count("direct_proposals")
		pendFee, pendSig, pendTx, havePend = fee, sig, txBytesNoWitness(tx[0]), true
		if !complete {
			r.Logf("%s: identical tx %v, outputs ok", what, tx[0].TxHash())
			continue
		}
		// negative control: the peer's signature for ANOTHER fee must not
		// complete this transaction (each signature must be verified).
		if !e.Taproot && havePrev && !bytes.Equal(prevTx, txBytesNoWitness(tx[0])) {
			for x := 0; x < 2; x++ {
				btx, _, err := e.Ch[x].CompleteCooperativeClose(sig[x], prevSig[1-x], e.Script[x], e.Script[1-x], fee, opts[x]...)
				if err == nil {
					e.verifyWitness(btx, fmt.Sprintf("%s: %s completed with the peer's signature for fee %d", what, nm(x), prevFee))
					r.Harness("%s: a signature for a different transaction passed the script engine", what)
				}
				r.Count("probe_foreign_sig_refused")
			}
		}
		var final [2]*wire.MsgTx
		for x := 0; x < 2; x++ {
			localSig, remoteSig := sig[x], sig[1-x]
			copts := opts[x]
			if e.Taproot {
				lp := sig[x].(*lnwallet.MusigPartialSig).ToWireSig().PartialSig
				rp := sig[1-x].(*lnwallet.MusigPartialSig).ToWireSig().PartialSig
				l, rm, co, err := ms[x].CombineClosingOpts(lp, rp)
				if err != nil {
					r.Fail("api-error", "%s: %s CombineClosingOpts: %v", what, nm(x), err)
				}
				localSig, remoteSig = l, rm
				copts = append(baseOpts(x), co...)
			}
			ftx, fb, err := e.Ch[x].CompleteCooperativeClose(localSig, remoteSig, e.Script[x], e.Script[1-x], fee, copts...)
			if err != nil {
				if errors.Is(err, lnwallet.ErrChanClosing) {
					r.Harness("%s: unexpected ErrChanClosing", what)
				}
				r.Fail("complete-refused", "%s: %s.CompleteCooperativeClose rejects the honest peer's signature over the identical transaction: %v", what, nm(x), err)
			}
			if fb != btcutil.Amount(exp[x]) && !(d.rbfOpts && e.ScriptKind[x] == kOpReturn) {
				r.Fail("output-amount", "%s: %s.CompleteCooperativeClose reports own final balance %d, the property demands %d", what, nm(x), fb, exp[x])
			}
			e.sameTx(ftx, tx[x], what+" (completed vs proposed by "+nm(x)+")")
			e.verifyWitness(ftx, what+" completed by "+nm(x))
			final[x] = ftx
		}
		if final[0].TxHash() != final[1].TxHash() {
			r.Fail("tx-mismatch", "%s: completed transactions differ: %v vs %v", what, final[0].TxHash(), final[1].TxHash())
		}
		completed = true
		r.Count("direct_completed")
		r.Logf("%s: completed on both sides, txid %v", what, final[0].TxHash())
	}
	r.State(fmt.Sprintf("direct|%s|%v|%v", e.Cfg.TypeName, d.rbfOpts, completed))
	r.Nontrivial = e.Validated > 0
}

// assemble builds the p2wsh 2-of-2 witness from the two raw signatures.
func (e *Env) assemble(tx *wire.MsgTx, sig [2]input.Signature) *wire.MsgTx {
	cp := tx.Copy()
	a, b := 0, 1
	if string(e.Pub[0].SerializeCompressed()) > string(e.Pub[1].SerializeCompressed()) {
		a, b = 1, 0
	}
	ser := func(s input.Signature) []byte { return append(s.Serialize(), byte(1)) } // SIGHASH_ALL
	cp.TxIn[0].Witness = wire.TxWitness{nil, ser(sig[a]), ser(sig[b]), e.WitnessScript}
	return cp
}

var _ = lnwire.MilliSatoshi(0)
