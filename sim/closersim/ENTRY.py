# Table / manifest entries for the closersim engine (property C17).
# Same dict shapes as the C01 entries in /verif/checks_table.py (CHECK) and
# /verif/manifest_text.py (TEXT); ENGINE is the row for checks_table.ENGINES.

CHECK = {
    "C17": dict(
        bin="run_closersim", build="external", pkg="run_closersim", level="exploration",
        quick=dict(runs=12000, wall=90), thorough=dict(runs=300000, wall=1200),
        rule=("one evaluation = one seeded run: a channel pair of one of the seven channel types (either opener, "
              "capacities 20k sat - 5 BTC, dust limits 200-3000 sat) is brought to an HTLC-free state by a seeded history "
              "(synchronous payments/fails/fee updates, or an asynchronous chansim history wound down clean), then closed in "
              "one of four arms: direct (3-6 fees from 0 to above the payer's balance through CreateCloseProposal on both "
              "sides + CompleteCooperativeClose, legacy or RBF option set), legacy-box / legacy-outside (two real ChanClosers "
              "exchanging shutdown/closing_signed through a tape-scheduled FIFO transport, either or both sides initiating), "
              "rbf (two RBF-coop state machines under the simulator's protofsm executor with re-offers). Every closing "
              "transaction that appears (each proposal, each closing_signed, each completed/broadcast tx) is judged; "
              "non-trivial = at least one fully signed closing tx passed the simulator's own script-engine run; "
              "distinct = distinct event-trace hash"),
        states_measure="distinct (arm, closer phases or FSM state names of both sides, queue lengths, pending local events) tuples",
        expected_probes=[
            "probe_simultaneous_shutdown", "probe_closing_signed_before_flush", "probe_negotiation_3plus_rounds",
            "probe_payer_output_trimmed", "probe_nonpayer_output_trimmed", "probe_fee_above_balance_refused",
            "probe_all_outputs_dust_refused", "probe_opener_below_dust", "probe_nonopener_below_dust",
            "probe_msat_remainder", "probe_foreign_sig_refused",
            "probe_rbf_reoffer", "probe_rbf_early_offer", "probe_rbf_cant_pay", "probe_rbf_both_sides_closed",
        ],
        real_vs_stub={
            "lnwallet.LightningChannel (CreateCloseProposal, CompleteCooperativeClose, CoopCloseBalance, CreateCooperativeCloseTx), musig2 sessions": "real",
            "chancloser.ChanCloser (legacy negotiation) and SimpleCoopFeeEstimator": "real (estimator wrapped by a recording spy)",
            "RBF-coop states/transitions (rbf_coop_states.go, rbf_coop_transitions.go), RbfMsgMapper": "real",
            "peer.MusigChanCloser (nonce / session adapter for taproot closes)": "real",
            "protofsm.StateMachine executor (event queue, daemon events, post-send events)": "simulator re-implementation of applyEvents/executeDaemonEvent (single-threaded, tape-scheduled)",
            "chancloser.ChanStateObserver": "simulator stub following peer/chan_observer.go over the real channel (link / no-link modes)",
            "channeldb / kvdb (MarkShutdownSent, MarkCoopBroadcasted)": "real bbolt on tmpfs (no faults injected)",
            "signer": "input.MockSigner with real private keys (real ECDSA / Schnorr / musig2)",
            "transport": "simulator FIFO queue per direction, every message round-tripped through lnwire encode/decode",
            "chain (broadcast, spend notification)": "simulator records broadcasts and confirms one of them at the end of an RBF run",
            "peer.Brontide, link, switch, funding flow, wallet": "not simulated (the closer driving order of peer/brontide.go is imposed: flush after shutdown receipt, re-offer only from ClosePending/CloseErr/LocalCloseStart)",
        },
        assumptions=[
            "channels are born like lnwallet.CreateTestChannels builds them (no funding flow) and marked open; no upfront shutdown scripts; no aux (custom) channels",
            "the balance books of the oracle are the simulator's own (initial split moved only by settled HTLC amounts), never read from lnd",
            "the funding output the transactions are validated against is derived independently from the two funding keys (BOLT-3 2-of-2 / BIP-86 musig2 aggregate)",
            "'owner's dust limit' is read as the channel dust limit of the party owning the output (ChannelConfig.DustLimit), as CreateCooperativeCloseTx documents",
            "the 'realistic' box for the liveness claim: both ideal fees >= 100 sat, the higher ideal fee within both caps (explicit MaxFee or the documented 3x default), the opener can afford the higher ideal fee with an output >= dust remaining, segwit delivery scripts, channel not frozen; round budget 60 closing_signed messages",
            "RBF-coop Environment is built like peer/brontide.go builds it (BlockHeight unset = 0); termination is not claimed for the RBF flow, state-machine errors there are counted, only signature/transaction disagreements are judged",
            "OP_RETURN delivery scripts (direct arm with the RBF option set only): the amount of that output is not judged (BOLT-2 simple-close zeroes it; the property is silent)",
            "a clean batch is evidence, not proof: schedules, states and fees are sampled from a seeded PRNG",
        ],
        determinism="call-driven engine, no goroutines of its own, crypto/rand and math/rand pinned per run: identical seed gives byte-identical event log (self-test: 3 seeds x 200 runs x 2 processes x GOMAXPROCS 1/16, hashes, stats and state sets equal)",
    ),
}

ENGINE = {"name": "closersim", "path": "/verif/sim/closersim", "serves_properties": ["C17"],
          "kind_free_text": "cooperative close: real LightningChannel pairs (from chansim) brought to HTLC-free states by seeded histories; direct fee sweeps, two real legacy ChanClosers over a tape-scheduled transport, two RBF-coop state machines under a simulated protofsm executor; independent value/dust/conservation oracle from the simulator's own balance books, byte-identical-tx and script-engine checks against an independently derived funding output, bounded-liveness check inside the property's realistic fee box"}

TEXT = {
    "C17": dict(
        engine="closersim", design_ref="DESIGN.md 5 C17",
        technique="deterministic simulation: seeded HTLC-free states x fee sweeps x two-party close protocols (legacy and RBF) with an independent value oracle and script-engine validation",
        level_text=("Seeded exploration over histories, fees and protocol schedules. States: all seven channel types, both openers, "
                    "balance splits incl. either side below its dust limit or below the fee, sub-satoshi remainders, changed commit fees. "
                    "Direct arm: for 3-6 fees per run from zero to above the payer's balance both sides call CreateCloseProposal "
                    "(legacy option set, or the RBF option set with either side as paying closer); the two transactions must be byte-identical, "
                    "both must agree on whether the close exists at all, each signature must verify over the transaction the OTHER side built, the "
                    "simulator-assembled witness and the transaction returned by CompleteCooperativeClose on both sides must pass the script engine "
                    "against an independently derived funding output, a signature made for another transaction must be refused. Legacy arm: two real ChanClosers "
                    "(either or both initiating, arbitrary cross-direction interleaving, early closing_signed before flush) - every closing_signed is "
                    "checked against the receiver's transaction, both final transactions must have the same txid, be valid, be at a fee both sides offered; "
                    "inside the property's realistic fee box both must finish within 60 closing_signed messages. RBF arm: two RBF-coop state machines "
                    "with re-offers at other fee rates, simultaneous shutdowns, early offers, can't-pay paths - every broadcast is validated and closer/closee "
                    "transactions of the same round must be identical; one re-offer in three plays a peer implementation that switches its closer_script for that round (allowed by the simple-close spec, never done by lnd itself), the closee must build and sign the same transaction. Value oracle everywhere: each output = floor(balance) of the simulator's own books "
                    "(opener's includes commit fee and anchors) minus the fee for the payer, present iff >= the owner's dust limit, outputs + fee <= capacity "
                    "and = capacity (minus at most 1 sat of msat remainders) when nothing is trimmed."),
        level_note=("Trusted: input.MockSigner with real keys; channels built by chansim (no funding flow); the simulator's ~120-line re-implementation of the protofsm "
                    "executor and its ChanStateObserver stub (peer/chan_observer.go is unexported). Liveness is judged only inside the stated box and only for the legacy "
                    "negotiation; outside it and for RBF only safety is judged. Sampled, not exhaustive. Latent observation kept as a replay "
                    "(findings/latent-rbf-locktime-blockheight.json, needs VERIF_C17_ARM=8 VERIF_C17_BLOCKHEIGHT=700000): with a non-zero Environment.BlockHeight the RBF closer "
                    "announces that locktime but signs a locktime-0 transaction, so every RBF close fails; peer/brontide.go never sets BlockHeight, so production is unaffected."),
    ),
}
