package closersim

import (
	"context"
	"crypto/sha256"
	"encoding/binary"

	"github.com/btcsuite/btcd/btcutil/v2"
	"github.com/lightningnetwork/lnd/lnwallet"
	"github.com/lightningnetwork/lnd/lnwallet/chainfee"
	"github.com/lightningnetwork/lnd/lnwire"

	"verif/chansim"
	"verif/simcore"
)

var ctxb = context.Background()

// abort ends a run without a verdict (the history could not be completed).
type abortRun struct{ why string }

// errClass shortens an error to a stable class name for the counters.
func errClass(err error) string {
	var b []byte
	for _, c := range []byte(err.Error()) {
		switch {
		case c >= '0' && c <= '9', c == '.':
		case len(b) < 48:
			b = append(b, c)
		}
	}
	return string(b)
}

func (e *Env) abort(why string, err error) {
	e.R.Count("history_abort")
	e.R.Count("history_abort:" + why)
	e.R.Logf("ABORT (history could not complete, run not judged): %s: %v", why, err)
	panic(abortRun{why})
}

// setup are the swarm draws every arm shares.
type setup struct {
	cfg      chansim.Config
	histKind int // 0 none, 1-2 own payments, 3 chansim async history
	nHist    int
	kinds    [2]int
}

func drawSetup(t *simcore.Tape, segwitOnly bool) setup {
	var s setup
	cfg := chansim.DrawConfig(t)
	// a wider range of opening splits than chansim's default: the non-opener
	// starting with nothing (no push amount) is the most common real state.
	pcts := []int{100, 100, 99, 90, 70, 50, 30, 10, 1}
	cfg.OpenerPct = pcts[t.CfgDraw(len(pcts))]
	// small channels make "opener below its dust limit / below the fee" common
	s.histKind = t.CfgDraw(4)
	if c := t.CfgDraw(5); c >= 3 && s.histKind != 3 {
		old := cfg.CapacitySat
		cfg.CapacitySat = []btcutil.Amount{20_000, 50_000}[c-3]
		if cfg.ReserveA == old/100 || cfg.ReserveA == cfg.DustA && old/100 < cfg.DustA {
			cfg.ReserveA, cfg.ReserveB = cfg.CapacitySat/100, cfg.CapacitySat/100
			if cfg.ReserveA < cfg.DustA {
				cfg.ReserveA = cfg.DustA
			}
			if cfg.ReserveB < cfg.DustB {
				cfg.ReserveB = cfg.DustB
			}
		}
	}
	if t.CfgDraw(3) == 0 {
		// tiny reserves let histories drive either side below its dust
		// limit (the property quantifies over such states).
		cfg.ReserveA, cfg.ReserveB = 0, 0
	}
	// keep the opening commitment payable
	// a quarter of the own-history runs start with an opener that has spent
	// nearly everything: its whole balance is the commitment fee, the
	// anchors and up to a few thousand satoshi.
	if t.CfgDraw(4) == 0 && s.histKind != 3 {
		cfg.CapacitySat = 20_000
		cfg.FeePerKw = 253
		cfg.OpenerPct = 1 + t.CfgDraw(16)
		cfg.ReserveA, cfg.ReserveB = 0, 0
	}
	commitFee := cfg.FeePerKw.FeeForWeight(lnwallet.CommitWeight(cfg.ChanType))
	var anchors btcutil.Amount
	if cfg.ChanType.HasAnchors() {
		anchors = 2 * lnwallet.AnchorSize
	}
	dustO, dustN := cfg.DustA, cfg.DustB
	if !cfg.OpenerIsA {
		dustO, dustN = dustN, dustO
	}
	// the opening commitments must be payable and keep an output (each
	// commitment trims BOTH outputs by its owner's dust limit)
	pick := func() bool {
		for _, p := range []int{cfg.OpenerPct, 50, 90, 100, 30, 10} {
			open := cfg.CapacitySat * btcutil.Amount(p) / 100
			net := open - commitFee - anchors
			if net >= 0 && max(net, cfg.CapacitySat-open) >= max(dustO, dustN) {
				cfg.OpenerPct = p
				return true
			}
		}
		return false
	}
	if !pick() {
		cfg.FeePerKw = 253
		commitFee = cfg.FeePerKw.FeeForWeight(lnwallet.CommitWeight(cfg.ChanType))
		pick()
	}
	s.cfg = cfg
	s.nHist = 1 + t.CfgDraw(4)
	n := nScriptKinds
	if segwitOnly {
		n = kAnySegwit + 1
	}
	s.kinds[0] = t.CfgDraw(n)
	s.kinds[1] = t.CfgDraw(n)
	return s
}

// build creates the channel pair and runs the history. All configuration
// draws of the caller must have happened before.
func build(r *simcore.Run, s setup) *Env {
	e := &Env{R: r, Cfg: s.cfg}
	cfg := s.cfg
	r.Logf("setup: %v history=%d/%d", cfg, s.histKind, s.nHist)
	if !cfg.OpenerIsA {
		e.Opener = 1
	}
	if s.histKind == 3 {
		// asynchronous chansim history (adds, settles, fails, fee updates
		// in any order the channel API accepts), wound down to a clean,
		// HTLC-free state.
		mode := chansim.Mode{MaxSteps: 12 + 6*s.nHist, MaxHtlcs: 6}
		sim := chansim.NewSim(r, cfg, mode)
		sim.Run()
		e.W = sim.W
		v := sim.M.Eval(sim.M.S[0].LocalTail)
		if v.Underflow || len(v.Htlcs) != 0 {
			e.abort("chansim history did not end HTLC-free", nil)
		}
		e.Bal = v.Bal
		r.Count("history_chansim")
	} else {
		e.W = chansim.NewWorld(r, cfg)
		e.Bal = [2]lnwire.MilliSatoshi{e.W.InitBalA, e.W.InitBalB}
	}
	e.Ch[0], e.Ch[1] = e.W.A.Chan, e.W.B.Chan
	e.Dust = [2]btcutil.Amount{cfg.DustA, cfg.DustB}
	e.Cap = cfg.CapacitySat
	e.Taproot = cfg.ChanType.IsTaproot()
	e.Pub[0], e.Pub[1] = e.W.A.Keys[0].PubKey(), e.W.B.Keys[0].PubKey()
	e.ChanID = lnwire.NewChanIDFromOutPoint(e.W.FundingOut)
	e.ScriptKind = s.kinds
	e.Script[0] = mkScript(s.kinds[0], 0xa1)
	e.Script[1] = mkScript(s.kinds[1], 0xb2)
	e.deriveFunding()

	if s.histKind == 1 || s.histKind == 2 {
		for i := 0; i < s.nHist && r.Step(); i++ {
			e.historyStep()
		}
	}
	for x := 0; x < 2; x++ {
		if !e.Ch[x].IsChannelClean() {
			e.abort("channel "+nm(x)+" not clean after history", nil)
		}
	}
	// the funding transaction confirmed long ago
	scid := lnwire.ShortChannelID{BlockHeight: openHeight, TxIndex: 1, TxPosition: uint16(e.W.FundingOut.Index)}
	for x := 0; x < 2; x++ {
		r.Must(e.Ch[x].State().MarkAsOpen(scid), "MarkAsOpen")
	}
	if e.Bal[0]+e.Bal[1] != lnwire.NewMSatFromSatoshis(e.Cap) {
		r.Harness("books do not add up: %d + %d != %d", e.Bal[0], e.Bal[1], e.Cap)
	}
	if e.Bal[0]%1000 != 0 {
		r.Count("probe_msat_remainder")
	}
	for x := 0; x < 2; x++ {
		if int64(e.Bal[x]/1000) < int64(e.Dust[x]) {
			if x == e.Opener {
				r.Count("probe_opener_below_dust")
			} else {
				r.Count("probe_nonopener_below_dust")
			}
		}
	}
	r.Logf("state: type=%s opener=%s cap=%d balA=%d balB=%d msat dustA=%d dustB=%d commitFee=%d scripts=%s/%s",
		cfg.TypeName, nm(e.Opener), e.Cap, e.Bal[0], e.Bal[1], e.Dust[0], e.Dust[1],
		e.Ch[0].CommitFee(), scriptKindName[s.kinds[0]], scriptKindName[s.kinds[1]])
	return e
}

const openHeight = 600_000

// dance runs one full commitment exchange started by side x.
func (e *Env) dance(x int) {
	a, b := e.Ch[x], e.Ch[1-x]
	step := func(what string, err error) {
		if err != nil {
			e.abort("commitment dance: "+what, err)
		}
	}
	sa, err := a.SignNextCommitment(ctxb)
	step("sign", err)
	step("recv sig", b.ReceiveNewCommitment(sa.CommitSigs))
	rb, _, _, err := b.RevokeCurrentCommitment()
	step("revoke", err)
	sb, err := b.SignNextCommitment(ctxb)
	step("sign back", err)
	_, _, err = a.ReceiveRevocation(rb)
	step("recv rev", err)
	step("recv sig back", a.ReceiveNewCommitment(sb.CommitSigs))
	ra, _, _, err := a.RevokeCurrentCommitment()
	step("revoke back", err)
	_, _, err = b.ReceiveRevocation(ra)
	step("recv rev back", err)
}

// historyStep performs one complete payment (add, lock in, settle or fail,
// lock in) or one fee update between the two real channels.
func (e *Env) historyStep() {
	r := e.R
	op := r.Draw(8)
	if op == 7 {
		r.Kind("hist:fee")
		fees := []chainfee.SatPerKWeight{253, 500, 1000, 2500, 6000, 12000, 25000, 50000}
		fee := fees[r.Draw(len(fees))]
		o := e.Opener
		if err := e.Ch[o].UpdateFee(fee); err != nil {
			r.Count("hist_fee_refused")
			r.Logf("hist: %s.UpdateFee(%d) refused: %v", nm(o), fee, err)
			return
		}
		if err := e.Ch[1-o].ReceiveUpdateFee(fee); err != nil {
			e.abort("ReceiveUpdateFee", err)
		}
		e.dance(o)
		r.Count("hist_fee_update")
		r.Logf("hist: fee update to %d sat/kw, commit fee now %d", fee, e.Ch[0].CommitFee())
		return
	}
	from := r.Draw(2)
	to := 1 - from
	r.Kind("hist:pay:" + nm(from))
	avail := int64(e.Ch[from].AvailableBalance())
	var amt int64
	rems := []int64{0, 0, 1, 500, 999}
	switch r.Draw(6) {
	case 0:
		amt = avail / int64(2+r.Draw(8))
	case 1:
		amt = avail
	case 2: // leave the sender around its own dust limit
		deltas := []int64{0, -1, 1, -1500, 999, 2000, -1000}
		amt = int64(e.Bal[from]) - int64(e.Dust[from])*1000 + deltas[r.Draw(len(deltas))]
	case 3:
		amt = 1000*int64(1+r.Draw(5000)) + rems[r.Draw(len(rems))]
	case 4: // lift the receiver to around its dust limit
		deltas := []int64{0, -1, 1, -1000, 1000, 500}
		amt = int64(e.Dust[to])*1000 - int64(e.Bal[to]) + deltas[r.Draw(len(deltas))]
	default:
		amt = 1000*int64(r.Draw(int(avail/1000)+1)) + rems[r.Draw(len(rems))]
	}
	if amt > avail {
		amt = avail
	}
	if amt <= 0 {
		amt = 1000
	}
	e.payNo++
	var nb [8]byte
	binary.BigEndian.PutUint64(nb[:], e.payNo)
	pre := sha256.Sum256(append([]byte("closersim-preimage"), nb[:]...))
	htlc := &lnwire.UpdateAddHTLC{
		ChanID:      e.ChanID,
		Amount:      lnwire.MilliSatoshi(amt),
		PaymentHash: sha256.Sum256(pre[:]),
		Expiry:      uint32(500_000 + e.payNo),
	}
	idx, err := e.Ch[from].AddHTLC(htlc, nil)
	if err != nil {
		r.Count("hist_add_refused")
		r.Logf("hist: %s.AddHTLC(%d msat) refused: %v", nm(from), amt, err)
		return
	}
	htlc.ID = idx
	if _, err := e.Ch[to].ReceiveHTLC(htlc); err != nil {
		e.abort("ReceiveHTLC", err)
	}
	e.dance(from)
	if op == 6 {
		if err := e.Ch[to].FailHTLC(idx, []byte{1, 2, 3}, nil, nil, nil); err != nil {
			e.abort("FailHTLC", err)
		}
		if err := e.Ch[from].ReceiveFailHTLC(idx, []byte{1, 2, 3}); err != nil {
			e.abort("ReceiveFailHTLC", err)
		}
		e.dance(to)
		r.Count("hist_fail")
		r.Logf("hist: %s->%s %d msat failed back", nm(from), nm(to), amt)
		return
	}
	if err := e.Ch[to].SettleHTLC(pre, idx, nil, nil, nil); err != nil {
		e.abort("SettleHTLC", err)
	}
	if err := e.Ch[from].ReceiveHTLCSettle(pre, idx); err != nil {
		e.abort("ReceiveHTLCSettle", err)
	}
	e.dance(to)
	e.Bal[from] -= lnwire.MilliSatoshi(amt)
	e.Bal[to] += lnwire.MilliSatoshi(amt)
	r.Count("hist_pay")
	r.Logf("hist: %s->%s %d msat settled; books A=%d B=%d", nm(from), nm(to), amt, e.Bal[0], e.Bal[1])
}
