package closersim

import (
	"errors"
	"fmt"
	"os"
	"strconv"
	"strings"

	"github.com/btcsuite/btcd/btcutil/v2"
	"github.com/btcsuite/btcd/chaincfg/v2"
	"github.com/btcsuite/btcd/txscript/v2"
	"github.com/btcsuite/btcd/wire/v2"
	"github.com/lightningnetwork/lnd/channeldb"
	"github.com/lightningnetwork/lnd/fn/v2"
	"github.com/lightningnetwork/lnd/lntypes"
	"github.com/lightningnetwork/lnd/lnwallet"
	"github.com/lightningnetwork/lnd/lnwallet/chainfee"
	"github.com/lightningnetwork/lnd/lnwallet/chancloser"
	"github.com/lightningnetwork/lnd/lnwire"
	"github.com/lightningnetwork/lnd/msgmux"
	"github.com/lightningnetwork/lnd/peer"
	"github.com/lightningnetwork/lnd/protofsm"

	"verif/simcore"
)

// simObserver is the simulator's chancloser.ChanStateObserver over the real
// LightningChannel. It follows peer/chan_observer.go (unexported there): with
// a link the balances are final once adds are disabled in both directions and
// the channel is clean; without a link (restart case) they are final at once.
type simObserver struct {
	ch      *lnwallet.LightningChannel
	hasLink bool
	inOff   bool
	outOff  bool
}

func (o *simObserver) NoDanglingUpdates() bool    { return !o.ch.OweCommitment() }
func (o *simObserver) DisableIncomingAdds() error { o.inOff = true; return nil }
func (o *simObserver) DisableOutgoingAdds() error { o.outOff = true; return nil }
func (o *simObserver) DisableChannel() error      { return nil }
func (o *simObserver) MarkCoopBroadcasted(tx *wire.MsgTx, local bool) error {
	p := lntypes.Remote
	if local {
		p = lntypes.Local
	}
	return o.ch.MarkCoopBroadcasted(tx, p)
}
func (o *simObserver) MarkShutdownSent(addr []byte, isInitiator bool) error {
	return o.ch.MarkShutdownSent(channeldb.NewShutdownInfo(addr, isInitiator))
}
func (o *simObserver) balances() chancloser.ShutdownBalances {
	s := o.ch.StateSnapshot()
	return chancloser.ShutdownBalances{LocalBalance: s.LocalBalance, RemoteBalance: s.RemoteBalance}
}
func (o *simObserver) FinalBalances() fn.Option[chancloser.ShutdownBalances] {
	if !o.hasLink || (o.inOff && o.outOff && o.ch.IsChannelClean()) {
		return fn.Some(o.balances())
	}
	return fn.None[chancloser.ShutdownBalances]()
}

var _ chancloser.ChanStateObserver = (*simObserver)(nil)

type rbfCfg struct {
	hasLink     [2]bool
	rate        [2]chainfee.SatPerVByte // SendShutdown ideal rate / responder default rate
	maxReoffers [2]int
	height      uint32
	blockHeight uint32 // Environment.BlockHeight; peer/brontide.go leaves it unset
	maxSteps    int
}

var rbfRates = []chainfee.SatPerVByte{1, 2, 5, 10, 25, 100, 400, 3000, 50_000}

func drawRbf(t *simcore.Tape) rbfCfg {
	var c rbfCfg
	for x := 0; x < 2; x++ {
		c.hasLink[x] = t.CfgDraw(3) != 0
		c.rate[x] = rbfRates[t.CfgDraw(6)]
		c.maxReoffers[x] = t.CfgDraw(4)
	}
	c.height = openHeight + 100_000
	if t.CfgDraw(8) == 7 {
		c.height = openHeight + 500 // before the thaw height of a lease channel
	}
	c.maxSteps = 40 + 20*t.CfgDraw(3)
	if v := os.Getenv("VERIF_C17_BLOCKHEIGHT"); v != "" {
		// experiment knob (see ENTRY.py): production leaves it 0
		n, _ := strconv.Atoi(v)
		c.blockHeight = uint32(n)
	}
	return c
}

type bcastRec struct {
	fee btcutil.Amount
	tx  *wire.MsgTx
}

type rbfSide struct {
	env       *chancloser.Environment
	st        chancloser.RbfState
	obs       *simObserver
	mapper    *chancloser.RbfMsgMapper
	local     []chancloser.ProtocolEvent // events other goroutines of the daemon would inject
	dead      error
	requested bool
	flushSent bool
	reoffers  int
	all       []*wire.MsgTx
}

type rbfSim struct {
	e       *Env
	cfg     rbfCfg
	s       [2]*rbfSide
	q       [2][]lnwire.Message
	closerB [2][]bcastRec // closerB[c]: broadcasts by closer c of its own offers
	closeeB [2][]bcastRec // closeeB[c]: broadcasts by the closee of c's offers
	stopped bool
}

func (s *rbfSim) mkSide(x int) {
	e := s.e
	ch := e.Ch[x]
	thaw, err := ch.AbsoluteThawHeight()
	e.R.Must(err, "thaw height")
	obs := &simObserver{ch: ch, hasLink: s.cfg.hasLink[x]}
	env := &chancloser.Environment{
		ChainParams:    chaincfg.RegressionNetParams,
		ChanPeer:       *e.Pub[1-x],
		ChanPoint:      e.W.FundingOut,
		ChanID:         e.ChanID,
		Scid:           ch.ShortChanID(),
		ChanType:       ch.ChanType(),
		BlockHeight:    s.cfg.blockHeight,
		DefaultFeeRate: s.cfg.rate[x],
		ThawHeight:     fn.Some(thaw),
		NewDeliveryScript: func() (lnwire.DeliveryAddress, error) {
			return e.Script[x], nil
		},
		FeeEstimator: &chancloser.SimpleCoopFeeEstimator{},
		CloseSigner:  ch,
		ChanObserver: obs,
	}
	if e.Taproot {
		env.LocalMusigSession = peer.NewMusigChanCloser(ch)
		env.RemoteMusigSession = peer.NewMusigChanCloser(ch)
	}
	h := s.cfg.height
	s.s[x] = &rbfSide{
		env: env, st: &chancloser.ChannelActive{}, obs: obs,
		mapper: chancloser.NewRbfMsgMapper(func() uint32 { return h }, e.ChanID, *e.Pub[1-x]),
	}
}

func stateName(st chancloser.RbfState) string {
	if cn, ok := st.(*chancloser.ClosingNegotiation); ok {
		l := cn.PeerState.GetForParty(lntypes.Local)
		rm := cn.PeerState.GetForParty(lntypes.Remote)
		return fmt.Sprintf("Negotiation(%s,%s)", typeName(l), typeName(rm))
	}
	return typeName(st)
}

func typeName(v interface{}) string {
	s := fmt.Sprintf("%T", v)
	if i := strings.LastIndexByte(s, '.'); i >= 0 {
		s = s[i+1:]
	}
	return s
}

// apply plays protofsm.StateMachine.applyEvents for one external event.
func (s *rbfSim) apply(x int, ev chancloser.ProtocolEvent) {
	e := s.e
	r := e.R
	side := s.s[x]
	if side.dead != nil {
		return
	}
	queue := []chancloser.ProtocolEvent{ev}
	for len(queue) > 0 {
		cur := queue[0]
		queue = queue[1:]
		before := side.st
		if _, ok := cur.(*chancloser.OfferReceivedEvent); ok {
			switch before.(type) {
			case *chancloser.ShutdownPending, *chancloser.ChannelFlushing:
				r.Count("probe_rbf_early_offer")
			}
		}
		tr, err := side.st.ProcessEvent(cur, side.env)
		if err != nil {
			s.machineError(x, cur, err)
			return
		}
		tr.NewEvents.WhenSome(func(em chancloser.RbfEvent) {
			for _, d := range em.ExternalEvents {
				s.daemon(x, cur, d)
			}
			queue = append(queue, em.InternalEvent...)
		})
		side.st = tr.NextState
		r.Logf("%s: %s --%s--> %s", nm(x), stateName(before), typeName(cur), stateName(side.st))
		// peer.chanFlushEventSentinel: with a link, the first time the
		// machine sits in ChannelFlushing the link is asked to report
		// the flush; the channel is clean, so the report is on its way.
		if _, ok := side.st.(*chancloser.ChannelFlushing); ok && side.obs.hasLink && !side.flushSent {
			side.flushSent = true
			side.local = append(side.local, &chancloser.ChannelFlushed{ShutdownBalances: side.obs.balances()})
		}
		if cn, ok := side.st.(*chancloser.ClosingNegotiation); ok {
			if _, ok := cn.PeerState.GetForParty(lntypes.Local).(*chancloser.CloseErr); ok {
				r.Count("probe_rbf_cant_pay")
			}
		}
	}
}

func (s *rbfSim) machineError(x int, cur chancloser.ProtocolEvent, err error) {
	r := s.e.R
	var se txscript.Error
	if errors.As(err, &se) || strings.Contains(err.Error(), "unable to complete coop close") {
		r.Fail("sig-mismatch", "%s processing %s: the honest peer's signature does not complete the transaction this side built: %v",
			nm(x), typeName(cur), err)
	}
	s.s[x].dead = err
	s.stopped = true
	r.Count("rbf_machine_error")
	r.Count("rbf_err:" + errClass(err))
	r.Logf("%s: state machine ERROR on %s in %s: %v (protocol stops; not judged)", nm(x), typeName(cur), stateName(s.s[x].st), err)
}

// daemon plays protofsm.StateMachine.executeDaemonEvent.
func (s *rbfSim) daemon(x int, cur chancloser.ProtocolEvent, d protofsm.DaemonEvent) {
	e := s.e
	r := e.R
	switch de := d.(type) {
	case *protofsm.SendMsgEvent[chancloser.ProtocolEvent]:
		ok := true
		de.SendWhen.WhenSome(func(p protofsm.SendPredicate) { ok = p() })
		if !ok {
			r.Harness("send predicate false on a clean channel")
		}
		for _, m := range de.Msgs {
			s.q[x] = append(s.q[x], e.roundTrip(m))
			switch mm := m.(type) {
			case *lnwire.ClosingComplete:
				r.Logf("%s -> closing_complete fee=%d locktime=%d", nm(x), mm.FeeSatoshis, mm.LockTime)
			case *lnwire.ClosingSig:
				r.Logf("%s -> closing_sig fee=%d", nm(x), mm.FeeSatoshis)
			default:
				r.Logf("%s -> %s", nm(x), typeName(m))
			}
		}
		de.PostSendEvent.WhenSome(func(pe chancloser.ProtocolEvent) {
			s.s[x].local = append(s.s[x].local, pe)
		})
	case *protofsm.BroadcastTxn:
		s.broadcast(x, cur, de.Tx)
	default:
		// spend / conf registrations: answered at the end of the run
	}
}

// broadcast judges a transaction a machine hands to the network.
func (s *rbfSim) broadcast(x int, cur chancloser.ProtocolEvent, tx *wire.MsgTx) {
	e := s.e
	r := e.R
	tx = tx.Copy()
	s.s[x].all = append(s.s[x].all, tx)
	switch ev := cur.(type) {
	case *chancloser.OfferReceivedEvent: // x is the closee of the peer's offer
		c := 1 - x
		fee := ev.SigMsg.FeeSatoshis
		what := fmt.Sprintf("rbf: closee %s broadcasts %s's offer #%d fee=%d", nm(x), nm(c), len(s.closeeB[c]), fee)
		e.verifyWitness(tx, what)
		e.checkOutputs(tx, txCtx{fee: fee, payer: c, what: what, rbfOpts: true})
		s.closeeB[c] = append(s.closeeB[c], bcastRec{fee, tx})
		r.Logf("%s txid=%v", what, tx.TxHash())
	case *chancloser.LocalSigReceived: // x is the closer
		fee := ev.SigMsg.FeeSatoshis
		k := len(s.closerB[x])
		what := fmt.Sprintf("rbf: closer %s broadcasts its offer #%d fee=%d", nm(x), k, fee)
		e.verifyWitness(tx, what)
		e.checkOutputs(tx, txCtx{fee: fee, payer: x, what: what, rbfOpts: true})
		if k >= len(s.closeeB[x]) {
			r.Fail("tx-mismatch", "%s but the closee never completed that offer", what)
		}
		other := s.closeeB[x][k]
		if other.fee != fee {
			r.Fail("tx-mismatch", "%s but the closee completed it at fee %d", what, other.fee)
		}
		e.sameTx(tx, other.tx, what+" vs closee's transaction")
		s.closerB[x] = append(s.closerB[x], bcastRec{fee, tx})
		r.Count("rbf_round_completed")
		if len(s.closerB[0]) > 0 && len(s.closerB[1]) > 0 {
			r.Count("probe_rbf_both_sides_closed")
		}
		r.Logf("%s txid=%v", what, tx.TxHash())
	default:
		r.Fail("unexpected-broadcast", "%s broadcast a transaction while processing %s", nm(x), typeName(cur))
	}
}

type rev struct {
	kind string
	side int
}

func (s *rbfSim) canReoffer(x int) bool {
	side := s.s[x]
	if side.dead != nil || side.reoffers >= s.cfg.maxReoffers[x] {
		return false
	}
	cn, ok := side.st.(*chancloser.ClosingNegotiation)
	if !ok {
		return false
	}
	switch cn.PeerState.GetForParty(lntypes.Local).(type) {
	case *chancloser.ClosePending, *chancloser.CloseErr, *chancloser.LocalCloseStart:
		// LocalCloseStart here means the first offer was skipped for
		// lack of funds; peer.startRbfChanCloser sends a new
		// SendOfferEvent in these states.
		for _, le := range side.local {
			if _, ok := le.(*chancloser.SendOfferEvent); ok {
				return false
			}
		}
		return true
	}
	return false
}

func (s *rbfSim) enabled(windDown bool) []rev {
	if s.stopped {
		return nil
	}
	var ev []rev
	for x := 0; x < 2; x++ {
		if len(s.q[x]) > 0 && s.s[1-x].dead == nil {
			ev = append(ev, rev{"deliver", x})
		}
	}
	for x := 0; x < 2; x++ {
		if len(s.s[x].local) > 0 && s.s[x].dead == nil {
			ev = append(ev, rev{"local", x})
		}
	}
	anyReq := s.s[0].requested || s.s[1].requested
	for x := 0; x < 2; x++ {
		_, active := s.s[x].st.(*chancloser.ChannelActive)
		if active && !s.s[x].requested && s.s[x].dead == nil {
			if !windDown || (!anyReq && x == 0 && len(ev) == 0) {
				ev = append(ev, rev{"shutdown", x})
			}
		}
	}
	if !windDown {
		for x := 0; x < 2; x++ {
			if s.canReoffer(x) {
				ev = append(ev, rev{"reoffer", x})
			}
		}
	}
	return ev
}

func (s *rbfSim) exec(ev rev) {
	e := s.e
	r := e.R
	x := ev.side
	side := s.s[x]
	switch ev.kind {
	case "shutdown":
		if s.s[1-x].requested {
			if _, ok := s.s[x].st.(*chancloser.ChannelActive); ok {
				r.Count("probe_simultaneous_shutdown")
			}
		}
		side.requested = true
		s.apply(x, &chancloser.SendShutdown{
			DeliveryAddr: fn.Some(lnwire.DeliveryAddress(e.Script[x])),
			IdealFeeRate: s.cfg.rate[x],
		})
	case "local":
		i := r.Draw(len(side.local))
		le := side.local[i]
		side.local = append(side.local[:i:i], side.local[i+1:]...)
		s.apply(x, le)
	case "reoffer":
		side.reoffers++
		rate := rbfRates[r.Draw(len(rbfRates))]
		r.Count("probe_rbf_reoffer")
		r.Logf("%s: user asks for a new offer at %d sat/vb", nm(x), rate)
		// BOLT 2 (simple close): the closer_script of a later
		// closing_complete may differ from the script announced in
		// shutdown. lnd itself never changes its script, so one re-offer
		// in three plays a peer implementation that does: the sender's
		// terms get a fresh script of the same kind before the offer is
		// built. The closee must build and sign the same transaction.
		if e.ScriptKind[x] != kOpReturn && r.Draw(3) == 2 {
			if cn, ok := side.st.(*chancloser.ClosingNegotiation); ok && cn.CloseChannelTerms != nil {
				ns := mkScript(e.ScriptKind[x], byte(0xc0+8*x+side.reoffers))
				e.AltScripts[x] = append(e.AltScripts[x], ns)
				cn.CloseChannelTerms.LocalDeliveryScript = ns
				switch ps := cn.PeerState.GetForParty(lntypes.Local).(type) {
				case *chancloser.ClosePending:
					if ps.CloseChannelTerms != nil {
						ps.CloseChannelTerms.LocalDeliveryScript = ns
					}
				case *chancloser.LocalCloseStart:
					if ps.CloseChannelTerms != nil {
						ps.CloseChannelTerms.LocalDeliveryScript = ns
					}
				case *chancloser.CloseErr:
					if ps.CloseChannelTerms != nil {
						ps.CloseChannelTerms.LocalDeliveryScript = ns
					}
				}
				r.Count("probe_rbf_closer_script_changed")
				r.Logf("%s: switches its delivery script to %x for this offer", nm(x), ns)
			}
		}
		s.apply(x, &chancloser.SendOfferEvent{TargetFeeRate: rate})
	case "deliver":
		y := 1 - x
		m := s.q[x][0]
		s.q[x] = s.q[x][1:]
		pe := s.s[y].mapper.MapMsg(msgmux.PeerMsg{Message: m, PeerPub: *e.Pub[x]})
		if pe.IsNone() {
			r.Harness("message %T not mapped by RbfMsgMapper", m)
		}
		pe.WhenSome(func(p chancloser.ProtocolEvent) { s.apply(y, p) })
	}
	r.State(fmt.Sprintf("rbf|%s|%s|q%d%d|l%d%d", stateName(s.s[0].st), stateName(s.s[1].st),
		min(len(s.q[0]), 2), min(len(s.q[1]), 2), min(len(s.s[0].local), 2), min(len(s.s[1].local), 2)))
}

func runRbf(r *simcore.Run, st setup, c rbfCfg) {
	e := build(r, st)
	s := &rbfSim{e: e, cfg: c}
	s.mkSide(0)
	s.mkSide(1)
	r.Arm = "rbf/" + e.Cfg.TypeName
	r.Logf("rbf arm: link A=%v B=%v rate A=%d B=%d sat/vb reoffers A<=%d B<=%d height=%d env.BlockHeight=%d",
		c.hasLink[0], c.hasLink[1], c.rate[0], c.rate[1], c.maxReoffers[0], c.maxReoffers[1], c.height, c.blockHeight)

	steps := 0
	for steps < c.maxSteps && r.Step() {
		ev := s.enabled(false)
		if len(ev) == 0 {
			break
		}
		ch := ev[r.Draw(len(ev))]
		r.Kind(ch.kind + ":" + nm(ch.side))
		s.exec(ch)
		steps++
	}
	for i := 0; i < 300; i++ {
		ev := s.enabled(true)
		if len(ev) == 0 {
			break
		}
		s.exec(ev[0])
	}
	// answer the spend registration: one of the broadcast transactions
	// confirms (the last one the network saw from A, else from B).
	var conf *wire.MsgTx
	for x := 0; x < 2 && conf == nil; x++ {
		if n := len(s.s[x].all); n > 0 {
			conf = s.s[x].all[n-1]
		}
	}
	if conf != nil && !s.stopped {
		for x := 0; x < 2; x++ {
			s.apply(x, &chancloser.SpendEvent{Tx: conf, BlockHeight: c.height + 1})
			if _, ok := s.s[x].st.(*chancloser.CloseFin); ok {
				r.Count("rbf_close_fin")
			}
		}
	}
	r.Logf("rbf summary: rounds completed A=%d B=%d, closee broadcasts for A=%d B=%d, final states %s / %s",
		len(s.closerB[0]), len(s.closerB[1]), len(s.closeeB[0]), len(s.closeeB[1]), stateName(s.s[0].st), stateName(s.s[1].st))
	r.Nontrivial = e.Validated > 0
}
