package closersim

import (
	"errors"
	"fmt"
	"strings"

	"github.com/btcsuite/btcd/btcutil/v2"
	"github.com/btcsuite/btcd/chaincfg/v2"
	"github.com/btcsuite/btcd/txscript/v2"
	"github.com/btcsuite/btcd/wire/v2"
	"github.com/lightningnetwork/lnd/channeldb"
	"github.com/lightningnetwork/lnd/lntypes"
	"github.com/lightningnetwork/lnd/lnwallet"
	"github.com/lightningnetwork/lnd/lnwallet/chainfee"
	"github.com/lightningnetwork/lnd/lnwallet/chancloser"
	"github.com/lightningnetwork/lnd/lnwire"
	"github.com/lightningnetwork/lnd/peer"

	"verif/simcore"
)

// spyEstimator wraps the real SimpleCoopFeeEstimator and remembers what the
// closer computed: the first call of initFeeBaseline is the ideal fee, the
// second (only with an explicit MaxFee) the cap.
type spyEstimator struct {
	inner chancloser.CoopFeeEstimator
	calls []btcutil.Amount
}

func (s *spyEstimator) EstimateFee(ct channeldb.ChannelType, l, rm *wire.TxOut, rate chainfee.SatPerKWeight) btcutil.Amount {
	f := s.inner.EstimateFee(ct, l, rm, rate)
	s.calls = append(s.calls, f)
	return f
}

// legacyCfg are the configuration draws of the legacy-negotiation arms.
type legacyCfg struct {
	box       bool // parameters drawn inside the "realistic" box
	idealRate [2]chainfee.SatPerKWeight
	maxRate   [2]chainfee.SatPerKWeight // 0: default cap (3x ideal)
	height    uint32
	maxSteps  int
}

func drawLegacy(t *simcore.Tape, box bool) legacyCfg {
	var l legacyCfg
	l.box = box
	if box {
		base := []chainfee.SatPerKWeight{253, 300, 500, 1000, 2500, 5000, 12000}[t.CfgDraw(7)]
		// the other side's ideal as a ratio of the first, in per mille
		ratio := []int64{1000, 1000, 1100, 1250, 1310, 1400, 2000, 2900, 3000, 4000, 9000, 19000}[t.CfgDraw(12)]
		other := chainfee.SatPerKWeight(int64(base) * ratio / 1000)
		first := t.CfgDraw(2)
		l.idealRate[first], l.idealRate[1-first] = base, other
		for x := 0; x < 2; x++ {
			switch t.CfgDraw(5) {
			case 0, 1: // default 3x
			case 2:
				l.maxRate[x] = 5 * l.idealRate[x]
			case 3:
				l.maxRate[x] = 20 * l.idealRate[x]
			case 4:
				// boundary: this side's cap is EXACTLY the peer's ideal
				// fee (same rate, same estimate) - "within each other's
				// fee cap" includes the cap itself
				if l.idealRate[1-x] > l.idealRate[x] {
					l.maxRate[x] = l.idealRate[1-x]
				}
			}
		}
		l.height = openHeight + 100_000 // past every thaw height
	} else {
		rates := []chainfee.SatPerKWeight{1, 10, 50, 100, 253, 1000, 20_000, 100_000, 500_000}
		for x := 0; x < 2; x++ {
			l.idealRate[x] = rates[t.CfgDraw(len(rates))]
			switch t.CfgDraw(4) {
			case 0:
			case 1:
				l.maxRate[x] = l.idealRate[x] / 2
			case 2:
				l.maxRate[x] = l.idealRate[x]
			case 3:
				l.maxRate[x] = 2 * l.idealRate[x]
			}
		}
		l.height = []uint32{openHeight + 100_000, openHeight + 500}[t.CfgDraw(2)]
	}
	l.maxSteps = 40 + 20*t.CfgDraw(3)
	return l
}

// maxClosingSigned is the fixed round budget of the bounded-liveness claim:
// closing_signed messages in total (both directions).
const maxClosingSigned = 60

type legacySim struct {
	e   *Env
	cfg legacyCfg
	cl  [2]*chancloser.ChanCloser
	spy [2]*spyEstimator
	q   [2][]lnwire.Message

	flushPending [2]bool
	phase        [2]int // 0 idle, 1 shutdown sent, 2 awaiting flush, 3 negotiating, 4 finished
	bcast        [2][]*wire.MsgTx
	done         [2]*wire.MsgTx
	doneFee      [2]btcutil.Amount
	lastRecvFee  [2]btcutil.Amount
	gotOffer     [2]bool
	offers       [2]map[btcutil.Amount]bool
	failed       error
	failedAt     string
	nSigned      int
	simultaneous bool
}

func (s *legacySim) mkCloser(x int, party lntypes.ChannelParty) {
	e := s.e
	s.spy[x] = &spyEstimator{inner: &chancloser.SimpleCoopFeeEstimator{}}
	cfg := chancloser.ChanCloseCfg{
		Channel:      e.Ch[x],
		MusigSession: peer.NewMusigChanCloser(e.Ch[x]),
		BroadcastTx: func(tx *wire.MsgTx, _ string) error {
			s.bcast[x] = append(s.bcast[x], tx.Copy())
			return nil
		},
		DisableChannel: func(wire.OutPoint) error { return nil },
		Disconnect:     func() error { return nil },
		MaxFee:         s.cfg.maxRate[x],
		ChainParams:    &chaincfg.RegressionNetParams,
		Quit:           make(chan struct{}),
		FeeEstimator:   s.spy[x],
	}
	s.cl[x] = chancloser.NewChanCloser(cfg,
		chancloser.DeliveryAddrWithKey{DeliveryAddress: e.Script[x]},
		s.cfg.idealRate[x], s.cfg.height, nil, party)
}

type lev struct {
	kind string
	side int
}

func (s *legacySim) enabled() []lev {
	var ev []lev
	if s.failed != nil {
		return nil
	}
	for x := 0; x < 2; x++ {
		if len(s.q[x]) > 0 {
			ev = append(ev, lev{"deliver", x})
		}
	}
	for x := 0; x < 2; x++ {
		if s.flushPending[x] {
			ev = append(ev, lev{"flush", x})
		}
	}
	for x := 0; x < 2; x++ {
		if s.cl[x] == nil {
			ev = append(ev, lev{"init", x})
		}
	}
	return ev
}

func (s *legacySim) fail(where string, err error) {
	r := s.e.R
	// An honest peer's signature that fails verification means the two
	// sides built different transactions: judged in every arm.
	var se txscript.Error
	if errors.As(err, &se) || strings.Contains(err.Error(), "unable to combine final co-op close sig") {
		r.Fail("sig-mismatch", "%s: the honest peer's closing signature does not verify on the transaction this side built (script engine: %v)", where, err)
	}
	s.failed, s.failedAt = err, where
	r.Count("legacy_negotiation_error")
	r.Count("legacy_err:" + errClass(err))
	r.Logf("%s: negotiation FAILED: %v", where, err)
}

func (s *legacySim) send(x int, m lnwire.Message) {
	r := s.e.R
	s.q[x] = append(s.q[x], s.e.roundTrip(m))
	if cs, ok := m.(*lnwire.ClosingSigned); ok {
		s.nSigned++
		s.offers[x][cs.FeeSatoshis] = true
		r.Logf("%s -> closing_signed fee=%d", nm(x), cs.FeeSatoshis)
		s.checkOffer(x, cs)
	} else {
		r.Logf("%s -> shutdown", nm(x))
	}
}

// checkOffer: every closing_signed must carry a signature that is valid over
// the transaction the RECEIVER derives for that fee (non-taproot; a musig2
// partial signature is checked when it is combined).
func (s *legacySim) checkOffer(x int, cs *lnwire.ClosingSigned) {
	e := s.e
	r := e.R
	if e.Taproot {
		return
	}
	y := 1 - x
	_, tx, _, err := e.Ch[y].CreateCloseProposal(cs.FeeSatoshis, e.Script[y], e.Script[x])
	if err != nil {
		if errors.Is(err, lnwallet.ErrChanClosing) {
			// the receiver has already completed its close
			r.Count("offer_after_receiver_closed")
			return
		}
		// x produced a signature, so x built a transaction for this fee
		r.Fail("build-asymmetry", "%s signed a closing tx for fee %d but %s cannot build one for that fee: %v", nm(x), cs.FeeSatoshis, nm(y), err)
	}
	sig, err := cs.Signature.ToSignature()
	if err != nil {
		r.Fail("sig-invalid", "%s's closing_signed(fee=%d) carries an unparsable signature: %v", nm(x), cs.FeeSatoshis, err)
	}
	if !e.verifyECDSA(tx, x, sig) {
		r.Fail("sig-invalid", "%s's closing_signed(fee=%d) signature does not verify over the transaction %s derives for that fee (%s)",
			nm(x), cs.FeeSatoshis, nm(y), txSummary(tx))
	}
	e.checkOutputs(tx, txCtx{fee: cs.FeeSatoshis, payer: e.Opener, what: fmt.Sprintf("closing_signed(fee=%d) by %s", cs.FeeSatoshis, nm(x))})
	r.Count("offer_sig_verified")
}

func (s *legacySim) noteFinished(x int, where string) {
	e := s.e
	r := e.R
	if s.done[x] != nil {
		return
	}
	tx, err := s.cl[x].ClosingTx()
	if err != nil {
		return
	}
	s.done[x], s.phase[x] = tx, 4
	fee := s.lastRecvFee[x]
	s.doneFee[x] = fee
	what := fmt.Sprintf("%s finished (%s) at fee %d", nm(x), where, fee)
	if !s.gotOffer[x] {
		r.Fail("finished-without-offer", "%s without ever having received a closing_signed", what)
	}
	e.verifyWitness(tx, what)
	e.checkOutputs(tx, txCtx{fee: fee, payer: e.Opener, what: what})
	if !s.offers[x][fee] || !s.offers[1-x][fee] {
		r.Fail("fee-not-signed", "%s, but the set of fees offered in closing_signed messages is A=%v B=%v: not a fee both signed for",
			what, keys(s.offers[0]), keys(s.offers[1]))
	}
	if n := len(s.bcast[x]); n == 0 || s.bcast[x][n-1].TxHash() != tx.TxHash() {
		r.Fail("broadcast-mismatch", "%s but the transaction it broadcast is not its ClosingTx", what)
	}
	r.Logf("%s txid=%v", what, tx.TxHash())
	if o := s.done[1-x]; o != nil {
		if o.TxHash() != tx.TxHash() {
			r.Fail("tx-mismatch", "both sides finished, A holds %s, B holds %s", txSummary(s.done[0]), txSummary(s.done[1]))
		}
		if s.doneFee[0] != s.doneFee[1] {
			r.Fail("tx-mismatch", "both sides finished on different fees %d / %d", s.doneFee[0], s.doneFee[1])
		}
	}
}

func keys(m map[btcutil.Amount]bool) []int64 {
	var out []int64
	for k := range m {
		out = append(out, int64(k))
	}
	sortInt64(out)
	return out
}

func sortInt64(a []int64) {
	for i := 1; i < len(a); i++ {
		for j := i; j > 0 && a[j-1] > a[j]; j-- {
			a[j-1], a[j] = a[j], a[j-1]
		}
	}
}

func (s *legacySim) exec(ev lev) {
	e := s.e
	r := e.R
	x := ev.side
	switch ev.kind {
	case "init":
		if s.cl[1-x] != nil && s.phase[1-x] == 1 {
			s.simultaneous = true
			r.Count("probe_simultaneous_shutdown")
		}
		s.mkCloser(x, lntypes.Local)
		sd, err := s.cl[x].ShutdownChan()
		if err != nil {
			s.fail(nm(x)+".ShutdownChan", err)
			return
		}
		s.phase[x] = 1
		s.send(x, sd)
	case "flush":
		s.flushPending[x] = false
		o, err := s.cl[x].BeginNegotiation()
		if err != nil {
			s.fail(nm(x)+".BeginNegotiation", err)
			return
		}
		s.phase[x] = 3
		o.WhenSome(func(m lnwire.ClosingSigned) { s.send(x, &m) })
		s.noteFinished(x, "BeginNegotiation")
	case "deliver":
		y := 1 - x
		m := s.q[x][0]
		s.q[x] = s.q[x][1:]
		if s.cl[y] == nil {
			s.mkCloser(y, lntypes.Remote)
		}
		switch msg := m.(type) {
		case *lnwire.Shutdown:
			o, err := s.cl[y].ReceiveShutdown(*msg)
			if err != nil {
				s.fail(nm(y)+".ReceiveShutdown", err)
				return
			}
			r.Logf("%s <- shutdown", nm(y))
			s.phase[y] = 2
			o.WhenSome(func(m lnwire.Shutdown) { s.send(y, &m) })
			s.flushPending[y] = true
		case *lnwire.ClosingSigned:
			if s.phase[y] == 2 {
				r.Count("probe_closing_signed_before_flush")
			}
			s.lastRecvFee[y], s.gotOffer[y] = msg.FeeSatoshis, true
			o, err := s.cl[y].ReceiveClosingSigned(*msg)
			if err != nil {
				s.fail(nm(y)+".ReceiveClosingSigned", err)
				return
			}
			r.Logf("%s <- closing_signed fee=%d", nm(y), msg.FeeSatoshis)
			o.WhenSome(func(m lnwire.ClosingSigned) { s.send(y, &m) })
			s.noteFinished(y, "ReceiveClosingSigned")
		default:
			r.Harness("unexpected message %T", m)
		}
	}
	r.State(fmt.Sprintf("legacy|%d%d|q%d%d|f%v%v|tap=%v", s.phase[0], s.phase[1], min(len(s.q[0]), 2), min(len(s.q[1]), 2),
		s.flushPending[0], s.flushPending[1], e.Taproot))
}

// inBox evaluates the "realistic" predicate of the property on what the two
// closers actually computed. ok=false: not decidable (negotiation never started).
func (s *legacySim) inBox() (box bool, why string) {
	e := s.e
	for x := 0; x < 2; x++ {
		if !segwitKind(e.ScriptKind[x]) {
			return false, "delivery script type the peer must reject"
		}
	}
	thaw, _ := e.Ch[0].AbsoluteThawHeight()
	if s.cfg.height < thaw {
		return false, "channel still frozen"
	}
	var ideal, max [2]btcutil.Amount
	for x := 0; x < 2; x++ {
		if s.spy[x] == nil || len(s.spy[x].calls) == 0 {
			// This side never reached BeginNegotiation. If the other
			// side's fee negotiation already failed, the fee part of
			// the predicate cannot be established: not judged.
			if s.failed != nil && (strings.Contains(s.failedAt, "BeginNegotiation") ||
				strings.Contains(s.failedAt, "ReceiveClosingSigned")) {
				return false, "fees of one side never established"
			}
			return true, "negotiation never started although scripts and height are acceptable"
		}
		ideal[x] = s.spy[x].calls[0]
		max[x] = 3 * ideal[x] // documented default multiplier
		if s.cfg.maxRate[x] > 0 && len(s.spy[x].calls) > 1 {
			max[x] = s.spy[x].calls[1]
		}
	}
	hi := ideal[0]
	if ideal[1] > hi {
		hi = ideal[1]
	}
	for x := 0; x < 2; x++ {
		if ideal[x] < 100 {
			return false, fmt.Sprintf("ideal fee of %s is %d < 100 sat", nm(x), ideal[x])
		}
		if hi > max[x] {
			return false, fmt.Sprintf("an ideal fee (%d) is above %s's cap %d", hi, nm(x), max[x])
		}
	}
	exp, ok := e.expected(hi, e.Opener)
	if !ok {
		return false, "the opener cannot afford the higher ideal fee"
	}
	if exp[0] < int64(e.Dust[0]) && exp[1] < int64(e.Dust[1]) {
		return false, "no output of at least dust would remain"
	}
	return true, fmt.Sprintf("ideal A=%d B=%d cap A=%d B=%d", ideal[0], ideal[1], max[0], max[1])
}

func runLegacy(r *simcore.Run, s setup, l legacyCfg) {
	e := build(r, s)
	ls := &legacySim{e: e, cfg: l}
	ls.offers[0], ls.offers[1] = map[btcutil.Amount]bool{}, map[btcutil.Amount]bool{}
	r.Logf("legacy arm: ideal rates A=%d B=%d sat/kw, max rates A=%d B=%d, height=%d", l.idealRate[0], l.idealRate[1], l.maxRate[0], l.maxRate[1], l.height)

	steps := 0
	for steps < l.maxSteps && ls.nSigned <= maxClosingSigned && r.Step() {
		ev := ls.enabled()
		if len(ev) == 0 {
			break
		}
		c := ev[r.Draw(len(ev))]
		r.Kind(c.kind + ":" + nm(c.side))
		ls.exec(c)
		steps++
	}
	// wind-down: no more choices, run the protocol to quiescence
	for i := 0; i < 400 && ls.nSigned <= maxClosingSigned; i++ {
		ev := ls.enabled()
		if len(ev) == 0 {
			break
		}
		c := ev[0]
		if ls.cl[0] != nil || ls.cl[1] != nil {
			// somebody already started: do not inject a second initiator
			if c.kind == "init" {
				break
			}
		}
		ls.exec(c)
	}

	box, why := ls.inBox()
	arm := "legacy-outside/"
	if box {
		arm = "legacy-box/"
	}
	r.Arm = arm + e.Cfg.TypeName
	r.Logf("classification: box=%v (%s); finished A=%v B=%v; closing_signed messages=%d; error=%v",
		box, why, ls.done[0] != nil, ls.done[1] != nil, ls.nSigned, ls.failed)
	r.Add("closing_signed_msgs", int64(ls.nSigned))
	if ls.nSigned >= 6 {
		r.Count("probe_negotiation_3plus_rounds")
	}
	if ls.done[0] != nil && ls.done[1] != nil {
		r.Count("legacy_both_finished")
	}
	if box {
		switch {
		case ls.failed != nil:
			r.Fail("negotiation-failed", "two honest nodes with realistic fees (%s) failed to close: %s: %v", why, ls.failedAt, ls.failed)
		case ls.nSigned > maxClosingSigned:
			r.Fail("no-termination", "two honest nodes with realistic fees (%s) exchanged more than %d closing_signed without agreement", why, maxClosingSigned)
		case ls.done[0] == nil || ls.done[1] == nil:
			r.Fail("no-termination", "two honest nodes with realistic fees (%s): the exchange went quiet but finished A=%v B=%v (phases %v, queues %d/%d)",
				why, ls.done[0] != nil, ls.done[1] != nil, ls.phase, len(ls.q[0]), len(ls.q[1]))
		}
		r.Count("legacy_box_terminated")
	} else {
		r.Count("legacy_outside_not_judged_for_liveness")
	}
	r.Nontrivial = e.Validated > 0
}
