package closersim

import (
	"os"
	"strconv"

	"verif/simcore"
)

// Run is one simulated execution of the C17 check. Swarm arms:
//
//	direct/<type>          fee sweep through CreateCloseProposal / CompleteCooperativeClose
//	legacy-box/<type>      two ChanClosers, fees inside the property's "realistic" box (liveness judged)
//	legacy-outside/<type>  two ChanClosers, anything else (safety only)
//	rbf/<type>             two RBF-coop state machines under the simulator's executor
func Run(r *simcore.Run) {
	defer func() {
		if p := recover(); p != nil {
			if _, ok := p.(abortRun); ok {
				r.Nontrivial = false
				return
			}
			panic(p)
		}
	}()
	t := r.Tape
	armDraw := t.CfgDraw(10)
	if v := os.Getenv("VERIF_C17_ARM"); v != "" { // debugging aid: pin the arm
		if n, err := strconv.Atoi(v); err == nil {
			armDraw = n
		}
	}
	switch {
	case armDraw <= 2:
		s := drawSetup(t, false)
		d := drawDirect(t)
		r.Arm = "direct/" + s.cfg.TypeName
		runDirect(r, s, d)
	case armDraw <= 5:
		s := drawSetup(t, true)
		l := drawLegacy(t, true)
		r.Arm = "legacy-box/" + s.cfg.TypeName
		runLegacy(r, s, l)
	case armDraw == 6:
		s := drawSetup(t, false)
		l := drawLegacy(t, false)
		r.Arm = "legacy-outside/" + s.cfg.TypeName
		runLegacy(r, s, l)
	default:
		s := drawSetup(t, true)
		c := drawRbf(t)
		r.Arm = "rbf/" + s.cfg.TypeName
		runRbf(r, s, c)
	}
}
