# Table / manifest entries for property C20 (engine gossipsim).
import json as _json

GOSSIPSIM_STUB = {
    "discovery.AuthenticatedGossiper (ProcessRemoteAnnouncement, validation barrier, reject cache, ban manager, premature/future-height buffering, trickle/broadcast batching; in the own-channels arm also ProcessLocalAnnouncement, handleAnnSig with the waiting-proof store (channeldb.WaitingProofStore on a SimKV file), the reliable sender with its message store, retransmission of the node's own stale announcements)": "real, inside a testing/synctest bubble",
    "funding manager (addToGraph / announceChannel), the remote endpoint of the node's own channels, NotifyWhenOnline/NotifyWhenOffline, FindChannel": "simulator: it hands over the proof-less local channel_announcement (with capacity and channel point), local channel_update and the local announcement_signatures, signs the remote half with the remote node and bitcoin keys it owns, connects/disconnects the channel peer",
    "netann / lnwire validation (ValidateChannelAnn, ValidateChannelUpdateAnn, ValidateNodeAnn), lnwallet/chanvalidate": "real",
    "graph.Builder (funding-output validation, staleness checks, pruning on spends) and graph/db ChannelGraph + graph cache": "real; KV store on a SimKV bbolt file (write failures injected in one arm), sqlite store in one arm",
    "chain (GetUtxo, GetBlock, block epochs, filtered chain view)": "simulator chain: funding outputs existing / missing / spent / wrong script / wrong amount; spends only when the tape says so; backend fault: for one channel_announcement in six (decided by the message bytes) every GetUtxo call made while it is handled fails with an I/O error that is not ErrOutputSpent (fault_chain_getutxo_io_error)",
    "peers, sync managers' remote side, message signer for own announcements": "simulator stubs (1-3 gossip peers with keys of their own, plus one peer per remote endpoint of an own channel, plus - created on demand - one peer per universe node whose identity key IS that node's key: one message in four, decided by the message bytes, is delivered by the node it speaks for (the announced node of a node_announcement, the signer slot of a channel_update's direction, node 1 of a channel_announcement), whether the message is sound or not; every message a peer is sent is recorded as 'relayed')",
    "independent reading of gossip messages": "simulator parses raw BOLT-7 wire bytes, double-SHA256 of the signed part, btcec signature verification; nothing in the oracle calls lnwire or netann",
    "graph/db.KVStore / SQLStore under concurrent callers (store-race arm, 1 run in 16, a third of them on sqlite)": "real KVStore on a SimKV bbolt file or real SQLStore on sqlite (reject cache, channel cache, batch scheduler with its cacheMu locker), OUTSIDE the bubble; add/update/mark-live calls for one channel are serialised and carry increasing timestamps, as graph.Builder's per-channel mutex guarantees, lookups, range queries and deletes are not: 2-3 real caller goroutines (HasChannelEdge, UpdateEdgePolicy, AddChannelEdge, DeleteChannelEdges, MarkEdgeLive, FilterKnownChanIDs, ChanUpdatesInHorizon) parked at the entry and exit of every database transaction (SimKV.OnTx/OnTxEnd; a wrapper around the SQL store's ExecTx) and released one at a time by the tape; whether a released goroutine reached its next point, finished or waits for a lock is read from the runtime's goroutine states (runtime.Stack), not from a timeout; the gossiper and builder are not part of this arm",
    "gossip v2, the real peer/brontide stack, historical sync (gossip_timestamp_filter back-fill is exercised, query_channel_range is not)": "not simulated",
}
GOSSIPSIM_ASSUME = [
    "the oracle is one-directional: an authentic, fresh message may legitimately be dropped (rate limit, reject cache, ban, missing channel); 'not applied' is never a violation",
    "the zombie index and reject cache are not part of the judged projection (they only ever suppress data)",
    "pruning timers are out of reach of the fake clock except in the aging arm (zombie-prune ticker at 15 days, one or two long sleeps per run); the chain view reports spends only when the tape says so, so every non-gossip cause of a graph change is known to the simulator",
    "BOLT-7 ascending node-id order of a channel announcement is judged only with GOSSIPSIM_STRICT_NODE_ORDER=1 (the property does not state it)",
    "a channel whose two node ids are equal is itself recorded as a finding (sqlite store only); everything that follows from it in that run is attributed to it",
    "own-channels arm: the funding manager is a stub that only ever hands over well-formed local messages (our half is correctly signed); a proof-less channel may enter the graph only from such a hand-over; an update the node signs itself for its own direction (retransmission) is judged like gossip (signed by the node's key, newer, consistent); whether our announcement_signatures is sent again at a later reconnect depends on a race inside the node and is neither logged nor counted; node restart with a non-empty waiting-proof/message store is not exercised",
    "bbolt / sqlite atomicity; a clean batch is evidence, not proof",
]

CHECK = {
    "C20": dict(
        bin="run_gossipsim", build="gotest", pkg="run_gossipsim", level="exploration",
        quick=dict(runs=10000, wall=80), thorough=dict(runs=500000, wall=1500),
        rule="one evaluation = one seeded run over a universe of 3-5 node keys and 2-4 channels whose funding outputs exist / are missing / spent / pay to "
             "another script / have another amount: 40-90 deliveries of validly signed channel_announcement, channel_update (both directions; older, "
             "equal, newer timestamps; disabled; inconsistent max-htlc/flags) and node_announcement messages, re-signed semantic variants (swapped key, "
             "wrong-direction signer, scid of another channel, other chain hash) and wire-level corruptions (one byte flipped anywhere, signature swapped, "
             "extra TLV data), in any order, duplicated, from 1-3 peers, updates before their channel, after the funding output was spent; fake-time advance "
             "across rate-limit/trickle intervals, block connects, timestamp-filter changes; arms: sequential, concurrent bursts, graph-DB write failures, "
             "sqlite store, own-channels (2 runs in 16, a quarter of them on sqlite: the node itself is an endpoint of 1-2 further channels; the funding manager hands "
             "over the local announcement without proof, the local update and - for channels to be announced - our announcement_signatures; the remote half arrives "
             "before the channel is known / before / after ours / after the proof is complete, valid or with a wrong node signature, wrong bitcoin signature, the two "
             "swapped, naming another scid, signing another digest, one bit flipped, our own half reflected, or from a peer that is no party to the channel, repeatedly; "
             "the channel peer is offline when our half is due and connects later; proofs premature by up to two blocks). After every delivery (to quiescence) the graph projection (channels with keys/capacity/outpoint, both policies with timestamps, "
             "nodes) and the path-finding cache are diffed against the previous one and every change must be justified by a delivered authentic and fresh "
             "message; every message sent to a peer must be one that was accepted; a channel_announcement the node assembled itself must carry four signatures that verify, "
             "both as read back from the graph and as sent to any peer; on bbolt every relayed channel_update must have been durably stored at some point (a second store object on the same file reads the policies after every commit of the graph database). Store-race arm (1 run in 16): 2-3 caller goroutines run 1-3 graph-store calls each against "
             "2-3 channels with reject/channel caches of 1, 2 or 50 entries, warm or cold; every switch between them happens at the entry or exit of a database "
             "transaction and is chosen by the tape; afterwards the live store's HasChannelEdge answer (existence, zombie flag, both last-update times - what every freshness "
             "check compares an incoming update with) must equal the answer of a fresh store opened on the same file; in half of these runs the updates go through graph.Builder.UpdateEdge with timestamps fixed in advance (an older update can be in flight next to a newer one) and the stored policy must end at the newest timestamp UpdateEdge accepted. non-trivial = at least one channel entered the graph and at least one "
             "corrupted or stale message was delivered afterwards; distinct = distinct event-trace hash",
        states_measure="distinct (channels in graph, policies set, nodes announced, buffered premature messages, banned peers) tuples",
        expected_probes=["relay_applied_checks", "race_schedule_choices", "race_coherence_checks", "race_builder_freshness_checks", "probe_race_goroutine_waited_for_a_lock", "probe_race_batch_runner_goroutines", "fault_wire_corruption", "fault_funding_spent", "fault_chain_getutxo_io_error", "probe_delivered_by_the_node_the_message_speaks_for", "fault_db_write_failed", "fault_long_sleep_past_prune_interval", "probe_zombie_channel_resurrected", "probe_buffered_update_applied_later",
                         "probe_buffered_announcement_applied_later", "probe_future_height_msg_buffered", "probe_peer_disconnected_by_ban",
                         "graph_chan_added", "graph_policy_replaced", "graph_node_applied", "relayed_chan_ann", "relayed_chan_update", "relayed_node_ann",
                         "graph_own_chan_added", "graph_own_proof_added", "relayed_own_chan_ann", "probe_own_proof_completed_by_local_half",
                         "probe_own_proof_completed_by_remote_half", "probe_own_proof_completed_when_mature", "probe_remote_half_before_channel_known",
                         "probe_remote_half_before_local_half", "probe_remote_half_after_proof_complete", "probe_annsig_premature_buffered",
                         "probe_local_half_sent_after_peer_came_online", "probe_own_update_resigned_by_node", "fault_chan_peer_offline",
                         "fault_local_half_while_peer_offline", "fault_remote_half_wrong_node_sig", "fault_remote_half_wrong_bitcoin_sig",
                         "fault_remote_half_sigs_swapped", "fault_remote_half_other_scid", "fault_remote_half_other_digest",
                         "fault_remote_half_sig_bit_flipped", "fault_remote_half_reflected", "fault_remote_half_from_non_party"],
        real_vs_stub=GOSSIPSIM_STUB, assumptions=GOSSIPSIM_ASSUME,
        simulated_time="fake clock of the synctest bubble (trickle delay, rate-limit intervals) advanced by tape-chosen steps; block height is a simulator variable",
        determinism="actor engine in a synctest bubble, one delivery at a time to quiescence in the sequential arms (exact replay measured by the self-test with "
                    "GOSSIPSIM_NO_CONCURRENT=1); the concurrent arm releases several deliveries at once (seam-deterministic, oracles schedule independent); the store-race arm runs real goroutines released one at a time at database-boundary "
                    "points (who runs next is the tape's choice; what a goroutine that was woken by a lock release does until its next point is the runtime's: seam-deterministic, "
                    "the coherence oracle is schedule independent)",
    ),
}

ENGINE = {"name": "gossipsim", "path": "/verif/sim/gossipsim", "serves_properties": ["C20"],
          "kind_free_text": "real AuthenticatedGossiper + graph.Builder + graph DB (bbolt on SimKV / sqlite) + graph cache inside a synctest bubble; simulated peers and chain; "
                            "valid, re-signed-variant and byte-corrupted gossip in any order with duplicates; own channels whose announcement the node assembles from two announcement_signatures halves (funding manager and remote endpoint simulated); independent BOLT-7 byte-level authenticity oracle; "
                            "every graph change and every relayed message must be justified"}

TEXT = {
    "C20": dict(engine="gossipsim", design_ref="DESIGN.md 5 C20",
                technique="deterministic simulation: seeded delivery histories of valid, variant and corrupted gossip (any order, duplicates, several peers, premature, DB write failures) against the real gossiper/builder/graph; independent byte-level authenticity + freshness oracle on every graph diff and every relayed message",
                level_text="Seeded exploration of gossip delivery histories. After every delivery the graph projection is diffed against the previous one. A channel may enter only "
                           "from a delivered announcement whose four signatures verify (checked by the simulator on the raw bytes) for this chain, whose funding output exists, is "
                           "unspent and pays to the 2-of-2 of the announced bitcoin keys, stored with the chain's capacity/outpoint; a stored channel is immutable and leaves only when "
                           "its funding output is spent. A policy may change only to a delivered update for that channel and direction signed by the owner of that direction, "
                           "with consistent fields and a timestamp strictly newer than the stored one. A node entry may change only to a delivered announcement signed by that "
                           "node, strictly newer, while the node has a known channel. The path-finding cache must equal the database. In the own-channels arm (2 runs in 16) the node is itself an endpoint of 1-2 channels: such a channel may enter without proof only with the fields the funding manager handed over and a sound funding output; it may later acquire a proof only if the funding manager handed over our half and all four signatures of the announcement the graph then reconstructs verify under the stated keys (checked on the raw bytes); every channel_announcement the node assembles and sends (broadcast, or to the channel peer) must verify likewise; an invalid remote half therefore never changes the projection and nothing is sent because of it. In the aging arm (3 runs in 16) the zombie-prune ticker is within reach of the fake clock: a channel may leave with an unspent funding output exactly when its policies are older than the prune horizon (both, or either under strict zombie pruning) and may come back only after a channel_update with a timestamp inside the horizon, signed by the owner of its direction, was delivered. Everything sent to a peer must be a message that "
                           "was delivered, authentic, accepted and not stale at every one of its deliveries. Exploration is the right level: message space and orders are unbounded.",
                level_note="Trusted: btcec ECDSA; the simulator's 150-line BOLT-7 byte parser; synctest quiescence. One-directional oracle (drops are legal). Gossip v2 is not enabled in this "
                           "tree's gossiper path and is not exercised. One genuine defect found by the aging arm was fixed in lnd (87dc739: wrong key stored in the zombie index under strict pruning; regress/C20-strict-zombie-wrong-signer-resurrects.json). The zombie-resurrection rule comes from lnd's documented zombie handling, not from C20's wording (DESIGN.md section 11). Known finding (open, sqlite store only): channel announcement with node_id_1 == node_id_2 accepted, one update "
                           "then occupies both directions."),
}

KNOWN_FINDINGS = _json.load(open("/verif/sim/gossipsim/findings/known_findings_C20.json"))
