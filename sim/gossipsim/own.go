package gossipsim

import (
	"bytes"
	"fmt"
	"strings"

	"github.com/btcsuite/btcd/btcec/v2"
	"github.com/btcsuite/btcd/btcutil/v2"
	"github.com/btcsuite/btcd/chaincfg/v2"
	"github.com/btcsuite/btcd/wire/v2"
	"github.com/lightningnetwork/lnd/discovery"
	"github.com/lightningnetwork/lnd/lnwire"
)

// The own-channels arm: the node under test is itself one endpoint of one or
// two channels of the universe. The simulator plays
//
//   - the funding manager (funding.Manager.addToGraph / announceChannel): it
//     hands the gossiper the local channel_announcement WITHOUT proof, the
//     local channel_update and - when the channel is to become public - the
//     local announcement_signatures (ProcessLocalAnnouncement), and
//   - the remote endpoint of the channel (it owns that node's key and both
//     bitcoin keys): its announcement_signatures arrive before or after ours,
//     valid or wrong in one of several ways, while the peer is connected.
//
// The node then ASSEMBLES the channel announcement itself (handleAnnSig):
// that assembled proof and everything sent out because of it is judged
// byte-for-byte by the same independent verifier as remote gossip.

// halfInfo is one remote announcement_signatures the simulator delivered.
type halfInfo struct {
	label string
	valid bool
	step  int
}

// ownChan is what the simulator remembers about one channel of the node.
type ownChan struct {
	c      *uChan
	peer   *simPeer // the remote endpoint
	chanID lnwire.ChannelID

	caMsg  *lnwire.ChannelAnnouncement1 // without signatures
	caWire []byte                       // its encoding (four zero signatures)
	digest []byte                       // what all four signatures must sign

	localHalf     *lnwire.AnnounceSignatures1
	localHalfWire []byte

	opened      int  // times the funding manager handed over the announcement
	localHalves int  // times the funding manager handed over our half
	halfLogged  bool // our half was seen going to the peer
	remote      []halfInfo
}

func (oc *ownChan) name() string {
	return fmt.Sprintf("own chan%d (%s)", oc.c.idx, scidStr(oc.c.scid.ToUint64()))
}

// remoteHalves lists the remote halves delivered so far (for messages).
func (oc *ownChan) remoteHalves() string {
	if len(oc.remote) == 0 {
		return "none"
	}
	var l []string
	for _, h := range oc.remote {
		l = append(l, fmt.Sprintf("#%d [%s]", h.step, h.label))
	}
	if len(l) > 4 {
		l = append([]string{"..."}, l[len(l)-4:]...)
	}
	return strings.Join(l, ", ")
}

// addOwnChannels extends the universe by the node's own channels (own-channels
// arm). All configuration draws made here come after every draw of the other
// arms. Called before the chain is mined up to the start height.
func (s *Sim) addOwnChannels(chain *SimChain, u *Universe) {
	t := s.r.Tape
	s.self = newNode(100)
	n := 1 + t.CfgDraw(2)
	for j := 0; j < n; j++ {
		i := len(u.chans)
		rn := u.nodes[t.CfgDraw(len(u.nodes))]
		c := &uChan{idx: i, own: true, kind: fundOK, capacity: int64(100_000 * (1 + t.CfgDraw(20)))}
		c.n = [2]*uNode{s.self, rn}
		if string(s.self.pub[:]) > string(rn.pub[:]) {
			c.n = [2]*uNode{rn, s.self}
			c.selfIdx = 1
		}
		for k := 0; k < 2; k++ {
			p, err := btcec.NewPrivateKey()
			s.r.Must(err, "bitcoin key")
			c.btc[k] = p
			copy(c.btcPub[k][:], p.PubKey().SerializeCompressed())
		}
		// three in four are to be announced; the rest stay private (the
		// funding manager never hands over our half)
		c.announce = t.CfgDraw(4) != 3
		tx := wire.NewMsgTx(2)
		tx.AddTxIn(&wire.TxIn{PreviousOutPoint: wire.OutPoint{Hash: [32]byte{byte(i + 1)}, Index: uint32(i)}, Sequence: 0xffffffff})
		outIdx := t.CfgDraw(2)
		for o := 0; o <= outIdx; o++ {
			sc, val := []byte{0x51}, int64(1000+o)
			if o == outIdx {
				sc, val = p2wsh2of2(c.btcPub[0][:], c.btcPub[1][:]), c.capacity
			}
			tx.AddTxOut(&wire.TxOut{Value: val, PkScript: sc})
		}
		for e := 0; e < i%3+1; e++ {
			tx.AddTxOut(&wire.TxOut{Value: int64(5000 + 10*e + i), PkScript: []byte{0x51}})
		}
		// heights 90..97: announcement_signatures become mature six blocks
		// deep, so the highest ones are premature at the start height
		height := int32(startHeight - 10 + t.CfgDraw(8))
		txIndex := chain.Plan(height, tx)
		c.scid = lnwire.ShortChannelID{BlockHeight: uint32(height), TxIndex: uint32(txIndex), TxPosition: uint16(outIdx)}
		c.outpoint = wire.OutPoint{Hash: tx.TxHash(), Index: uint32(outIdx)}
		u.chans = append(u.chans, c)
	}
	// one run in four of the arm keeps its graph in sqlite
	if t.CfgDraw(4) == 3 {
		s.cfg.SQL = true
	}
}

// initOwn prepares the messages of the own channels (after the world exists).
func (s *Sim) initOwn() {
	s.own = map[uint64]*ownChan{}
	for _, c := range s.u.chans {
		if !c.own {
			continue
		}
		oc := &ownChan{c: c, peer: s.w.chanPeerByKey(c.n[1-c.selfIdx].pub),
			chanID: lnwire.NewChanIDFromOutPoint(c.outpoint)}
		oc.caMsg = s.u.baseCA(c).msg()
		oc.caWire = encode(oc.caMsg)
		oc.digest = dsha(oc.caWire[2+256:])
		oc.localHalf = s.half(oc, oc.c.scid, oc.digest, s.self.priv, c.btc[c.selfIdx])
		oc.localHalfWire = encode(oc.localHalf)
		s.own[c.scid.ToUint64()] = oc
		s.ownList = append(s.ownList, oc)
		vis := "to be announced"
		if !c.announce {
			vis = "private"
		}
		logf(s.r, "universe: chan %d is a channel of the node itself with %s (peer %s), %s", c.idx,
			short(oc.peer.pub[:]), oc.peer.name, vis)
	}
}

// half builds an announcement_signatures message for oc: nodeKey signs the
// node signature, btcKey the bitcoin signature, both over digest.
func (s *Sim) half(oc *ownChan, scid lnwire.ShortChannelID, digest []byte, nodeKey, btcKey *btcec.PrivateKey) *lnwire.AnnounceSignatures1 {
	ns, err := lnwire.NewSigFromWireECDSA(sign64(nodeKey, digest))
	s.r.Must(err, "node signature")
	bs, err := lnwire.NewSigFromWireECDSA(sign64(btcKey, digest))
	s.r.Must(err, "bitcoin signature")
	return &lnwire.AnnounceSignatures1{ChannelID: oc.chanID, ShortChannelID: scid, NodeSignature: ns, BitcoinSignature: bs}
}

// annsigBuffered is what the node buffers, for one short channel id, of
// announcement_signatures that arrived before the proof was mature (six blocks
// deep). The node re-submits its buffered messages at the maturity height in
// an order of its own (iteration over a sync.Map), so the simulator only lets
// it buffer sets whose outcome does not depend on that order: our half and/or
// ONE valid remote half, or one single other message.
type annsigBuffered struct {
	need                      uint32 // height at which the proof is mature
	local, validRemote, other bool
}

// annsigAdmit reports whether an announcement_signatures naming scid may be
// handed to the node now (and books it if the node is going to buffer it).
func (s *Sim) annsigAdmit(scid lnwire.ShortChannelID, local, valid bool, label string) bool {
	need := scid.BlockHeight + discovery.DefaultProofMatureDelta - 1
	if need <= uint32(s.w.chain.Height()) {
		return true
	}
	id := scid.ToUint64()
	b := s.annsigPending[id]
	if b == nil {
		b = &annsigBuffered{need: need}
	}
	ok := false
	switch {
	case b.other:
	case local:
		ok = !b.local
		b.local = true
	case valid:
		ok = !b.validRemote
		b.validRemote = true
	default:
		ok = !b.local && !b.validRemote
		b.other = true
	}
	if !ok {
		logf(s.r, "#%d [%s] withheld: the node already buffers a premature announcement_signatures for that channel", s.step, label)
		s.r.Count("withheld_for_determinism")
		return false
	}
	s.annsigPending[id] = b
	s.r.Count("probe_annsig_premature_buffered")
	return true
}

func (s *Sim) ownInGraph(in bool) []*ownChan {
	var l []*ownChan
	for _, oc := range s.ownList {
		if (s.proj.chans[oc.c.scid.ToUint64()] != nil) == in {
			l = append(l, oc)
		}
	}
	return l
}

func (s *Sim) ownLocalHalfCands() []*ownChan {
	var l []*ownChan
	for _, oc := range s.ownList {
		if oc.c.announce && oc.opened > 0 {
			l = append(l, oc)
		}
	}
	return l
}

func (s *Sim) ownRemoteHalfCands() []*ownChan {
	var l []*ownChan
	for _, oc := range s.ownList {
		if oc.peer.online {
			l = append(l, oc)
		}
	}
	return l
}

// ownOps is the set of enabled step kinds of the arm with their weights.
func (s *Sim) ownOps() []op {
	if !s.cfg.Own {
		return nil
	}
	var ops []op
	if len(s.ownInGraph(false)) > 0 {
		ops = append(ops, op{"own-open", 8})
	}
	if in := s.ownInGraph(true); len(in) > 0 {
		w := 2
		for _, oc := range in {
			if s.proj.chans[oc.c.scid.ToUint64()].pol[oc.c.selfIdx] == nil {
				w = 6
			}
		}
		ops = append(ops, op{"own-cu", w})
	}
	// once a channel carries its proof, further halves are only duplicates
	if l := s.ownLocalHalfCands(); len(l) > 0 {
		w := 1
		for _, oc := range l {
			if oc.localHalves == 0 {
				w = 5
			}
		}
		ops = append(ops, op{"own-half-local", w})
	}
	if l := s.ownRemoteHalfCands(); len(l) > 0 {
		w := 2
		for _, oc := range l {
			if pc := s.proj.chans[oc.c.scid.ToUint64()]; pc == nil || pc.noProof {
				w = 9
			}
		}
		ops = append(ops, op{"own-half-remote", w})
	}
	on, off := s.chanPeersOnline(true), s.chanPeersOnline(false)
	if len(on) > 0 {
		ops = append(ops, op{"own-peer-off", 1})
	}
	if len(off) > 0 {
		ops = append(ops, op{"own-peer-on", 4})
	}
	return ops
}

func (s *Sim) chanPeersOnline(on bool) []*simPeer {
	var l []*simPeer
	for _, p := range s.w.chanPeers {
		if p.online == on {
			l = append(l, p)
		}
	}
	return l
}

// reportLocal logs the outcome of a ProcessLocalAnnouncement call.
func (s *Sim) reportLocal(d *delivery, label string) bool {
	d.mu.Lock()
	done, err := d.done, d.err
	d.mu.Unlock()
	if !done {
		logf(s.r, "  [%s] -> no answer (buffered)", label)
		s.r.Count("probe_buffered_no_answer")
		return false
	}
	if err != nil {
		s.rejected++
	}
	logf(s.r, "  [%s] -> %s", label, cleanErr(err))
	return err == nil
}

// ownStep runs one step of the arm.
func (s *Sim) ownStep(kind string) string {
	r := s.r
	switch kind {
	case "own-open":
		// funding.Manager.addToGraph, first half: the channel announcement
		// without proof, with capacity and channel point
		cands := s.ownInGraph(false)
		oc := cands[r.Draw(len(cands))]
		r.Kind(kind)
		label := fmt.Sprintf("local CA chan%d without proof", oc.c.idx)
		logf(r, "#%d funding manager hands over [%s]", s.step, label)
		s.remember(oc.caWire, label)
		s.byWire[string(oc.caWire)].local = true
		oc.opened++
		r.Count("own_local_chan_ann")
		d := s.w.DeliverLocal(oc.caMsg, discovery.ChannelCapacity(btcutil.Amount(oc.c.capacity)),
			discovery.ChannelPoint(oc.c.outpoint))
		s.w.settle()
		s.reportLocal(d, label)
		return "after the funding manager handed over [" + label + "]"

	case "own-cu":
		// funding.Manager.addToGraph, second half (and later policy
		// changes): our channel_update, signed with the node key
		cands := s.ownInGraph(true)
		oc := cands[r.Draw(len(cands))]
		r.Kind(kind)
		c, d := oc.c, oc.c.selfIdx
		var stored uint32
		if pc := s.proj.chans[c.scid.ToUint64()]; pc != nil && pc.pol[d] != nil {
			stored = pc.pol[d].ts
		}
		ts, tsName := s.pickTs(fmt.Sprintf("cu/%d/%d", c.idx, d), stored)
		sp := cuSpec{
			scid: c.scid, chainHash: s.u.chainHash, ts: ts,
			msgFlags:  lnwire.ChanUpdateRequiredMaxHtlc,
			chanFlags: lnwire.ChanUpdateChanFlags(d),
			cltv:      uint16(40 + 20*r.Draw(3)),
			minHtlc:   1000,
			maxHtlc:   uint64(c.capacity) * 1000 / uint64(1+r.Draw(3)),
			baseFee:   uint32(1 + 1000*r.Draw(4)),
			feeRate:   uint32(1 + r.Draw(4)),
			signer:    s.self.priv,
		}
		w := sp.wire()
		label := fmt.Sprintf("local CU chan%d/%d ts=%d(%s) fee=%d/%d", c.idx, d, ts, tsName, sp.baseFee, sp.feeRate)
		logf(r, "#%d funding manager hands over [%s]", s.step, label)
		s.remember(w, label)
		s.byWire[string(w)].local = true
		s.curWires[string(w)] = true
		r.Count("own_local_chan_update")
		msg, err := decode(w)
		r.Must(err, "decode local update")
		dl := s.w.DeliverLocal(msg)
		s.w.settle()
		s.reportLocal(dl, label)
		return "after the funding manager handed over [" + label + "]"

	case "own-half-local":
		// funding.Manager.announceChannel: our announcement_signatures,
		// then the current node announcement
		cands := s.ownLocalHalfCands()
		oc := cands[r.Draw(len(cands))]
		r.Kind(kind)
		label := fmt.Sprintf("local half chan%d", oc.c.idx)
		if oc.localHalves > 0 {
			label += " (again)"
		}
		if !oc.peer.online {
			label += " while the peer is offline"
		}
		if !s.annsigAdmit(oc.c.scid, true, false, label) {
			return "after nothing"
		}
		if oc.localHalves > 0 {
			r.Count("own_local_half_repeated")
		}
		if !oc.peer.online {
			r.Count("fault_local_half_while_peer_offline")
		}
		if pc := s.proj.chans[oc.c.scid.ToUint64()]; pc != nil && !pc.noProof {
			r.Count("probe_local_half_after_proof_complete")
		}
		logf(r, "#%d funding manager hands over [%s]", s.step, label)
		oc.localHalves++
		r.Count("own_local_half")
		cp := *oc.localHalf
		d := s.w.DeliverLocal(&cp)
		s.w.settle()
		s.reportLocal(d, label)
		sm, err := decode(s.w.selfWire)
		r.Must(err, "decode self ann")
		d = s.w.DeliverLocal(sm)
		s.w.settle()
		s.reportLocal(d, "local NA of the node itself")
		return "after the funding manager handed over [" + label + "]"

	case "own-half-remote":
		return s.remoteHalf()

	case "own-peer-off":
		cands := s.chanPeersOnline(true)
		p := cands[r.Draw(len(cands))]
		r.Kind(kind)
		logf(r, "#%d channel peer %s disconnects", s.step, p.name)
		s.w.setOnline(p, false)
		r.Count("fault_chan_peer_offline")
		s.w.settle()
		return "after channel peer " + p.name + " disconnected"

	case "own-peer-on":
		cands := s.chanPeersOnline(false)
		p := cands[r.Draw(len(cands))]
		r.Kind(kind)
		logf(r, "#%d channel peer %s connects", s.step, p.name)
		s.w.setOnline(p, true)
		s.cameOnline = true
		r.Count("chan_peer_online_again")
		s.w.settle()
		return "after channel peer " + p.name + " connected"
	}
	r.Harness("unknown own-channels step %q", kind)
	return ""
}

// remoteHalf delivers the remote endpoint's announcement_signatures for one
// own channel: valid half of the time, otherwise wrong in one way.
func (s *Sim) remoteHalf() string {
	r := s.r
	u := s.u
	cands := s.ownRemoteHalfCands()
	oc := cands[r.Draw(len(cands))]
	r.Kind("own-half-remote")
	c := oc.c
	ri := 1 - c.selfIdx
	rn := c.n[ri]
	scid, digest := c.scid, oc.digest
	nodeKey, btcKey := rn.priv, c.btc[ri]
	sender := oc.peer
	label := fmt.Sprintf("remote half chan%d", c.idx)
	fault := ""
	var flip = -1
	swap := false
	switch k := r.Draw(16); {
	case k < 8:
		// valid
	case k == 8:
		nodeKey = u.stranger.priv
		label += " node signature by a stranger's key"
		fault = "wrong_node_sig"
	case k == 9:
		btcKey = u.stranger.priv
		label += " bitcoin signature by a stranger's key"
		fault = "wrong_bitcoin_sig"
	case k == 10:
		swap = true
		label += " node and bitcoin signature swapped"
		fault = "sigs_swapped"
	case k == 11:
		// the signatures are right for our channel, the message names another
		o := u.chans[(c.idx+1+r.Draw(len(u.chans)-1))%len(u.chans)]
		scid = o.scid
		label += fmt.Sprintf(" naming the scid of chan%d", o.idx)
		fault = "other_scid"
	case k == 12:
		// validly signed, but over another announcement
		sp := u.baseCA(c)
		if r.Draw(2) == 0 {
			sp.chainHash = *chaincfg.TestNet3Params.GenesisHash
			label += " signing the announcement for another chain"
		} else {
			sp.features = lnwire.NewRawFeatureVector(lnwire.FeatureBit(1 + 2*r.Draw(7)))
			label += " signing the announcement with another feature bit"
		}
		digest = dsha(encode(sp.msg())[2+256:])
		fault = "other_digest"
	case k == 13:
		// valid signatures, but sent by a peer that is no party to the channel
		var others []*simPeer
		for _, p := range s.w.peers {
			if !p.dropped {
				others = append(others, p)
			}
		}
		for _, p := range s.w.chanPeers {
			if p != oc.peer && p.online {
				others = append(others, p)
			}
		}
		if len(others) > 0 {
			sender = others[r.Draw(len(others))]
			label += " sent by " + sender.name + ", no party to the channel"
			fault = "from_non_party"
		}
	case k == 14:
		// our own half sent back to us
		nodeKey, btcKey = s.self.priv, c.btc[c.selfIdx]
		label += " carrying OUR signatures (reflected)"
		fault = "reflected"
	default:
		flip = r.Draw(128 * 8)
		label += fmt.Sprintf(" +flip bit %d of the signatures", flip)
		fault = "sig_bit_flipped"
	}
	m := s.half(oc, scid, digest, nodeKey, btcKey)
	if swap {
		m.NodeSignature, m.BitcoinSignature = m.BitcoinSignature, m.NodeSignature
	}
	if flip >= 0 {
		raw := append(append([]byte{}, m.NodeSignature.RawBytes()...), m.BitcoinSignature.RawBytes()...)
		raw[flip/8] ^= 1 << uint(flip%8)
		var err error
		m.NodeSignature, err = lnwire.NewSigFromWireECDSA(raw[:64])
		r.Must(err, "flipped signature")
		m.BitcoinSignature, err = lnwire.NewSigFromWireECDSA(raw[64:])
		r.Must(err, "flipped signature")
	}
	// what the half is worth is decided by the independent verifier, not by
	// how it was made
	valid := scid == c.scid && sender == oc.peer &&
		verify64(m.NodeSignature.RawBytes(), oc.digest, rn.pub[:]) &&
		verify64(m.BitcoinSignature.RawBytes(), oc.digest, c.btcPub[ri][:])
	if !s.annsigAdmit(scid, false, valid, label) {
		return "after nothing"
	}
	if fault != "" {
		r.Count("fault_remote_half_" + fault)
		s.corrupt++
	}
	pc := s.proj.chans[c.scid.ToUint64()]
	switch {
	case pc == nil:
		r.Count("probe_remote_half_before_channel_known")
	case !pc.noProof:
		r.Count("probe_remote_half_after_proof_complete")
	case oc.localHalves == 0:
		r.Count("probe_remote_half_before_local_half")
	default:
		r.Count("probe_remote_half_after_local_half")
	}
	if len(oc.remote) > 0 && oc.remote[len(oc.remote)-1].label == label {
		r.Count("own_remote_half_duplicate")
	}
	if !c.announce {
		r.Count("probe_remote_half_for_private_channel")
	}
	if scid == c.scid {
		oc.remote = append(oc.remote, halfInfo{label: label, valid: valid, step: s.step})
	}
	logf(r, "#%d %s delivers [%s]", s.step, sender.name, label)
	r.Count("own_remote_half")
	d := s.w.Deliver(sender, m)
	s.w.settle()
	s.report(&pending{d: d, label: label, peer: sender.name})
	return "after delivery of [" + label + "]"
}

// ownInbox judges what the node sent directly to its channel peers besides
// gossip: our announcement_signatures must be the ones the funding manager
// handed over.
func (s *Sim) ownInbox(what string) {
	r := s.r
	for _, p := range s.w.chanPeers {
		p.mu.Lock()
		in := p.inbox
		p.inbox = nil
		p.mu.Unlock()
		for _, m := range in {
			as, ok := m.(*lnwire.AnnounceSignatures1)
			if !ok {
				continue
			}
			oc := s.own[as.ShortChannelID.ToUint64()]
			if oc == nil || oc.localHalves == 0 || !bytes.Equal(encode(as), oc.localHalfWire) {
				s.fail("relay-unknown", "%s: the node sent %s an announcement_signatures for %s that the funding manager never handed over", what,
					p.name, scidStr(as.ShortChannelID.ToUint64()))
			}
			if oc.halfLogged {
				// Whether the message store still holds our half
				// at a later reconnect (and it is sent again)
				// depends on a race inside the node between the
				// sender's staleness check and the proof being
				// stored; no counter or trace line may depend on it.
				continue
			}
			oc.halfLogged = true
			r.Count("own_local_half_sent_to_peer")
			if p != oc.peer {
				r.Count("probe_local_half_sent_to_other_peer")
			}
			if s.cameOnline {
				r.Count("probe_local_half_sent_after_peer_came_online")
			}
			logf(r, "  node sends its announcement_signatures for %s to %s", oc.name(), p.name)
		}
	}
	s.cameOnline = false
}
