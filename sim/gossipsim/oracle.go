package gossipsim

import (
	"bytes"
	"crypto/sha256"
	"encoding/binary"
	"fmt"

	"github.com/btcsuite/btcd/btcec/v2"
	"github.com/btcsuite/btcd/btcec/v2/ecdsa"
)

// This file is the simulator's INDEPENDENT reading of a gossip message: it
// works on the raw wire bytes (BOLT 7 layouts), hashes "everything after the
// signature fields" twice with SHA-256 and verifies the 64-byte signatures with
// btcec directly. Nothing here calls lnwire or netann.

const (
	typeChanAnn    = 256
	typeNodeAnn    = 257
	typeChanUpdate = 258
)

func dsha(b []byte) []byte {
	h1 := sha256.Sum256(b)
	h2 := sha256.Sum256(h1[:])
	return h2[:]
}

// verify64 checks a BOLT-style 64-byte r||s signature.
func verify64(sig []byte, digest []byte, pub []byte) bool {
	if len(sig) != 64 || len(pub) != 33 {
		return false
	}
	key, err := btcec.ParsePubKey(pub)
	if err != nil {
		return false
	}
	var r, s btcec.ModNScalar
	if r.SetByteSlice(sig[:32]) || s.SetByteSlice(sig[32:]) {
		return false // overflow
	}
	if r.IsZero() || s.IsZero() {
		return false
	}
	return ecdsa.NewSignature(&r, &s).Verify(digest, key)
}

// wireCA is a channel_announcement read straight from bytes.
type wireCA struct {
	sigs      [4][]byte // node1, node2, bitcoin1, bitcoin2
	features  []byte
	chainHash []byte
	scid      uint64
	node1     []byte
	node2     []byte
	btc1      []byte
	btc2      []byte
	signed    []byte
}

func parseCA(w []byte) (*wireCA, bool) {
	if len(w) < 2 || binary.BigEndian.Uint16(w) != typeChanAnn {
		return nil, false
	}
	p := w[2:]
	if len(p) < 256+2 {
		return nil, false
	}
	m := &wireCA{}
	for i := 0; i < 4; i++ {
		m.sigs[i] = p[64*i : 64*i+64]
	}
	m.signed = p[256:]
	q := m.signed
	flen := int(binary.BigEndian.Uint16(q))
	q = q[2:]
	if len(q) < flen+32+8+4*33 {
		return nil, false
	}
	m.features = q[:flen]
	q = q[flen:]
	m.chainHash = q[:32]
	q = q[32:]
	m.scid = binary.BigEndian.Uint64(q)
	q = q[8:]
	m.node1, m.node2, m.btc1, m.btc2 = q[:33], q[33:66], q[66:99], q[99:132]
	return m, true
}

// sigsOK: all four signatures verify over the digest under the stated keys.
func (m *wireCA) sigsOK() bool {
	d := dsha(m.signed)
	return verify64(m.sigs[0], d, m.node1) && verify64(m.sigs[1], d, m.node2) &&
		verify64(m.sigs[2], d, m.btc1) && verify64(m.sigs[3], d, m.btc2)
}

func (m *wireCA) height() uint32  { return uint32(m.scid >> 40) }
func (m *wireCA) txIndex() uint32 { return uint32(m.scid>>16) & 0xffffff }
func (m *wireCA) outIndex() uint16 {
	return uint16(m.scid)
}

// p2wsh2of2 is the BOLT-3 funding output script for two compressed keys:
// OP_0 SHA256(OP_2 <lesser> <greater> OP_2 OP_CHECKMULTISIG).
func p2wsh2of2(a, b []byte) []byte {
	if bytes.Compare(a, b) > 0 {
		a, b = b, a
	}
	ws := []byte{0x52, 33}
	ws = append(ws, a...)
	ws = append(ws, 33)
	ws = append(ws, b...)
	ws = append(ws, 0x52, 0xae)
	h := sha256.Sum256(ws)
	return append([]byte{0x00, 0x20}, h[:]...)
}

// wireCU is a channel_update read straight from bytes.
type wireCU struct {
	sig       []byte
	chainHash []byte
	scid      uint64
	ts        uint32
	msgFlags  byte
	chanFlags byte
	minHtlc   uint64
	maxHtlc   uint64
	hasMax    bool
	signed    []byte
}

func parseCU(w []byte) (*wireCU, bool) {
	if len(w) < 2 || binary.BigEndian.Uint16(w) != typeChanUpdate {
		return nil, false
	}
	p := w[2:]
	const fixed = 64 + 32 + 8 + 4 + 1 + 1 + 2 + 8 + 4 + 4
	if len(p) < fixed {
		return nil, false
	}
	m := &wireCU{sig: p[:64], signed: p[64:]}
	q := m.signed
	m.chainHash = q[:32]
	m.scid = binary.BigEndian.Uint64(q[32:])
	m.ts = binary.BigEndian.Uint32(q[40:])
	m.msgFlags = q[44]
	m.chanFlags = q[45]
	m.minHtlc = binary.BigEndian.Uint64(q[48:])
	if m.msgFlags&1 != 0 {
		if len(q) < 64+8 {
			return nil, false
		}
		m.hasMax = true
		m.maxHtlc = binary.BigEndian.Uint64(q[64:])
	}
	return m, true
}

func (m *wireCU) dir() int { return int(m.chanFlags & 1) }

// signedBy: the signature verifies over the digest under pub.
func (m *wireCU) signedBy(pub []byte) bool { return verify64(m.sig, dsha(m.signed), pub) }

// consistent: BOLT 7 field rules a receiver may rely on: the
// htlc_maximum_msat field is present (message_flags bit 0, "must_be_one"),
// it is not below htlc_minimum_msat and not above the channel capacity.
func (m *wireCU) consistent(capacitySat int64) bool {
	if !m.hasMax {
		return false
	}
	if m.maxHtlc < m.minHtlc {
		return false
	}
	if capacitySat > 0 && m.maxHtlc > uint64(capacitySat)*1000 {
		return false
	}
	return true
}

// wireNA is a node_announcement read straight from bytes.
type wireNA struct {
	sig    []byte
	ts     uint32
	nodeID []byte
	signed []byte
}

func parseNA(w []byte) (*wireNA, bool) {
	if len(w) < 2 || binary.BigEndian.Uint16(w) != typeNodeAnn {
		return nil, false
	}
	p := w[2:]
	if len(p) < 64+2 {
		return nil, false
	}
	m := &wireNA{sig: p[:64], signed: p[64:]}
	q := m.signed
	flen := int(binary.BigEndian.Uint16(q))
	q = q[2:]
	if len(q) < flen+4+33 {
		return nil, false
	}
	q = q[flen:]
	m.ts = binary.BigEndian.Uint32(q)
	m.nodeID = q[4:37]
	return m, true
}

func (m *wireNA) sigOK() bool { return verify64(m.sig, dsha(m.signed), m.nodeID) }

func short(b []byte) string {
	if len(b) > 4 {
		b = b[:4]
	}
	return fmt.Sprintf("%x", b)
}
