package gossipsim

// The store-race arm: the freshness half of C20 ("strictly newer than the
// stored one") is decided from KVStore.HasV1ChannelEdge, i.e. from the reject
// cache, while the gossiper handles messages of different peers on different
// goroutines. This arm runs 2-3 caller goroutines against the real KVStore on
// a SimKV file and owns the points at which they can be switched: the entry
// and the exit of every database transaction. It runs OUTSIDE a synctest
// bubble (a goroutine waiting for cacheMu is not "durably blocked" for
// synctest), with real goroutines that are parked at those points and
// released one at a time; whether a released goroutine has reached its next
// point, finished, or is waiting for a lock another parked goroutine holds is
// read from the runtime's goroutine states, not from a timeout.
//
// Oracle (schedule independent): at quiescence the answers of the live store
// - which may come from its caches - equal the answers of a fresh KVStore
// opened over the same database file.

import (
	"bytes"
	"context"
	"database/sql"
	"fmt"
	"os"
	"regexp"
	"runtime"
	"sort"
	"strconv"
	"strings"
	"sync"
	"time"

	"github.com/btcsuite/btcd/btcec/v2"
	"github.com/btcsuite/btcd/chaincfg/v2"
	"github.com/btcsuite/btcd/chainhash/v2"
	"github.com/btcsuite/btcd/wire/v2"
	"github.com/lightningnetwork/lnd/batch"
	"github.com/lightningnetwork/lnd/graph"
	graphdb "github.com/lightningnetwork/lnd/graph/db"
	"github.com/lightningnetwork/lnd/graph/db/models"
	"github.com/lightningnetwork/lnd/lnwire"
	"github.com/lightningnetwork/lnd/routing/route"
	"github.com/lightningnetwork/lnd/sqldb"

	"verif/simcore"
)

// ---- goroutine state inspection ----------------------------------------------

var gHeader = regexp.MustCompile(`(?m)^goroutine (\d+) \[([^\]]*)\]:$`)

func curGID() int64 {
	var buf [64]byte
	n := runtime.Stack(buf[:], false)
	f := strings.Fields(string(buf[:n]))
	id, _ := strconv.ParseInt(f[1], 10, 64)
	return id
}

type gState struct {
	id    int64
	state string
	body  string
}

// relevantGoroutines returns every goroutine of the process whose stack shows
// it is working for this arm (a task, or a goroutine lnd spawned for one).
func relevantGoroutines(self int64) []gState {
	buf := make([]byte, 1<<20)
	for {
		n := runtime.Stack(buf, true)
		if n < len(buf) {
			buf = buf[:n]
			break
		}
		buf = make([]byte, 2*len(buf))
	}
	var out []gState
	for _, blk := range bytes.Split(buf, []byte("\n\n")) {
		m := gHeader.FindSubmatch(blk)
		if m == nil {
			continue
		}
		id, _ := strconv.ParseInt(string(m[1]), 10, 64)
		if id == self {
			continue
		}
		body := string(blk)
		if !(strings.Contains(body, "gossipsim.(*raceSched)") || strings.Contains(body, "lnd/graph/db.") ||
			strings.Contains(body, "lnd/batch.") || strings.Contains(body, "lnd/graph.") || strings.Contains(body, "lnd/sqldb.") || strings.Contains(body, "gossipsim.RunStoreRace")) {
			continue
		}
		st := string(m[2])
		if i := strings.IndexByte(st, ','); i >= 0 {
			st = st[:i]
		}
		out = append(out, gState{id, st, body})
	}
	return out
}

// waiting reports whether a goroutine in this state cannot make progress
// until another goroutine acts.
func waiting(st string) bool {
	switch st {
	case "chan receive", "chan send", "select", "sync.Mutex.Lock", "sync.RWMutex.RLock", "sync.RWMutex.Lock",
		"semacquire", "sync.Cond.Wait", "sync.WaitGroup.Wait", "chan receive (nil chan)", "select (no cases)":
		return true
	}
	return false
}

// ---- the scheduler ------------------------------------------------------------

type parkedG struct {
	gid   int64
	name  string
	point string
	ch    chan struct{}
}

type raceSched struct {
	r       *simcore.Run
	mu      sync.Mutex
	on      bool
	names   map[int64]string
	parked  []*parkedG
	aux     int
	lockObs int
}

// gate is installed at the entry and exit of every SimKV transaction.
func (rs *raceSched) gate(point string) {
	rs.mu.Lock()
	if !rs.on {
		rs.mu.Unlock()
		return
	}
	gid := curGID()
	name, ok := rs.names[gid]
	if !ok {
		// a goroutine lnd started on behalf of a task (batch runner)
		rs.aux++
		name = fmt.Sprintf("aux%d", rs.aux)
		rs.names[gid] = name
	}
	p := &parkedG{gid: gid, name: name, point: point, ch: make(chan struct{})}
	rs.parked = append(rs.parked, p)
	rs.mu.Unlock()
	<-p.ch
}

// settle waits until no relevant goroutine is running or runnable.
func (rs *raceSched) settle(self int64) []gState {
	deadline := time.Now().Add(20 * time.Second)
	for {
		gs := relevantGoroutines(self)
		busy := false
		for _, g := range gs {
			if !waiting(g.state) {
				busy = true
				break
			}
		}
		if !busy {
			return gs
		}
		if time.Now().After(deadline) {
			rs.r.Harness("store-race: goroutines still running after 20s of real time")
		}
		runtime.Gosched()
		time.Sleep(20 * time.Microsecond)
	}
}

// run drives the tasks to completion. done reports how many tasks finished.
func (rs *raceSched) run(total int, done func() int) {
	r := rs.r
	self := curGID()
	idle := 0
	for steps := 0; ; steps++ {
		if steps > 4000 {
			r.Harness("store-race: no end after 4000 scheduling steps")
		}
		gs := rs.settle(self)
		rs.mu.Lock()
		parked := append([]*parkedG(nil), rs.parked...)
		rs.mu.Unlock()
		if len(parked) == 0 {
			if done() == total {
				return
			}
			// a timer-started batch runner has not shown up yet
			idle++
			if idle > 20000 {
				var sb strings.Builder
				for _, g := range gs {
					fmt.Fprintf(&sb, "\n%s", g.body)
				}
				r.Harness("store-race: nothing parked, %d of %d tasks finished, nothing arrives%s", done(), total, sb.String())
			}
			time.Sleep(50 * time.Microsecond)
			continue
		}
		idle = 0
		for _, g := range gs {
			if strings.HasPrefix(g.state, "sync.") || g.state == "semacquire" {
				rs.lockObs++
			}
		}
		sort.Slice(parked, func(i, j int) bool { return parked[i].name < parked[j].name })
		pick := parked[0]
		if len(parked) > 1 && r.Step() {
			r.Kind("schedule")
			pick = parked[r.Draw(len(parked))]
			r.Count("race_schedule_choices")
		}
		r.Logf("    sched: release %s at %s (%d parked)", pick.name, pick.point, len(parked))
		rs.mu.Lock()
		for i, p := range rs.parked {
			if p == pick {
				rs.parked = append(rs.parked[:i:i], rs.parked[i+1:]...)
				break
			}
		}
		rs.mu.Unlock()
		close(pick.ch)
	}
}

// ---- the workload --------------------------------------------------------------

type raceChan struct {
	id   uint64
	info *models.ChannelEdgeInfo
	// wmu mirrors graph.Builder's per-channel mutex (channelEdgeMtx; the
	// gossiper's channelMtx above it): lnd never has two add/update calls for
	// one channel in flight, and updates reach the store in timestamp order.
	// Lookups, range queries and prune-style deletes are not behind it.
	wmu sync.Mutex
}

type hasAnswer struct {
	u1, u2         int64
	exists, zombie bool
}

func (a hasAnswer) String() string {
	return fmt.Sprintf("exists=%v zombie=%v last_update=(%d,%d)", a.exists, a.zombie, a.u1, a.u2)
}

func raceVertex(tag byte, i int) route.Vertex {
	var k [32]byte
	k[0], k[30], k[31] = 0x5a, tag, byte(i+1)
	_, pub := btcec.PrivKeyFromBytes(k[:])
	var v route.Vertex
	copy(v[:], pub.SerializeCompressed())
	return v
}

func raceHas(st graphdb.Store, id uint64) (hasAnswer, error) {
	t1, t2, ex, z, err := st.HasV1ChannelEdge(context.Background(), id)
	a := hasAnswer{exists: ex, zombie: z}
	if ex {
		a.u1, a.u2 = t1.Unix(), t2.Unix()
	}
	return a, err
}

// gatedExec puts the scheduler's gates around every transaction of the SQL
// store (outside the transaction: no parked goroutine holds a database lock).
type gatedExec struct {
	graphdb.BatchedSQLQueries
	rs *raceSched
}

func (g gatedExec) ExecTx(ctx context.Context, o sqldb.TxOptions, body func(graphdb.SQLQueries) error, reset func()) error {
	if o.ReadOnly() {
		g.rs.gate("view-begin")
	} else {
		g.rs.gate("update-begin")
	}
	err := g.BatchedSQLQueries.ExecTx(ctx, o, body, reset)
	if o.ReadOnly() {
		g.rs.gate("view-end")
	} else {
		g.rs.gate("update-end")
	}
	return err
}

// RunStoreRace is one run of the arm.
func RunStoreRace(r *simcore.Run) {
	tp := r.Tape
	r.Arm = "bbolt/store-race"
	cacheSize := []int{1, 2, 50}[tp.CfgDraw(3)]
	nChans := 2 + tp.CfgDraw(2)
	nTasks := 2 + tp.CfgDraw(2)
	lazy := tp.CfgDraw(2) == 1

	// appended after the arm's other configuration draws
	sqlBackend := tp.CfgDraw(3) == 2
	// Builder mode: channel updates go through graph.Builder.UpdateEdge, whose
	// per-channel mutex has to make its freshness check and the store write
	// one step. Updates then carry timestamps fixed when the programs are
	// drawn (so that an older one can be in flight next to a newer one) and
	// the tasks run only lookups, range queries and updates.
	viaBuilder := tp.CfgDraw(2) == 1
	rs := &raceSched{r: r, names: map[int64]string{}}
	storeOpts := []graphdb.StoreOptionModifier{graphdb.WithRejectCacheSize(cacheSize),
		graphdb.WithChannelCacheSize(cacheSize), graphdb.WithBatchCommitInterval(0)}
	var (
		store    graphdb.Store
		newFresh func() (graphdb.Store, error)
		kv       *simcore.SimKV
	)
	if sqlBackend {
		r.Arm = "sqlite/store-race"
		if sqlTemplate == nil {
			tp := r.SubDir("sqltpl") + "/t.sqlite"
			tdb, err := sqldb.NewSqliteStore(&sqldb.SqliteConfig{}, tp)
			r.Must(err, "open sqlite template")
			r.Must(tdb.ApplyAllMigrations(context.Background(), sqldb.GetMigrations()), "sqlite migrations")
			r.Must(tdb.DB.Close(), "close sqlite template")
			sqlTemplate, err = os.ReadFile(tp)
			r.Must(err, "read sqlite template")
		}
		path := r.SubDir("racesql") + "/graph.sqlite"
		r.Must(os.WriteFile(path, sqlTemplate, 0o600), "copy sqlite template")
		sdb, err := sqldb.NewSqliteStore(&sqldb.SqliteConfig{SkipMigrations: true}, path)
		r.Must(err, "open sqlite")
		defer sdb.DB.Close()
		base := sdb.BaseDB
		exec := sqldb.NewTransactionExecutor(base, func(tx *sql.Tx) graphdb.SQLQueries {
			return base.WithTx(tx)
		})
		scfg := &graphdb.SQLStoreConfig{ChainHash: *chaincfg.MainNetParams.GenesisHash, QueryCfg: sqldb.DefaultSQLiteConfig()}
		st, err := graphdb.NewSQLStore(scfg, gatedExec{exec, rs}, storeOpts...)
		r.Must(err, "NewSQLStore")
		store = st
		newFresh = func() (graphdb.Store, error) {
			return graphdb.NewSQLStore(scfg, exec, graphdb.WithBatchCommitInterval(0))
		}
	} else {
		var err error
		kv, err = simcore.OpenSimKV(r.SubDir("race"), "graph.db")
		r.Must(err, "open simkv")
		defer kv.Close()
		st, err := graphdb.NewKVStore(kv, storeOpts...)
		r.Must(err, "NewKVStore")
		store = st
		newFresh = func() (graphdb.Store, error) {
			return graphdb.NewKVStore(kv, graphdb.WithBatchCommitInterval(0))
		}
	}
	ctx := context.Background()
	var builder *graph.Builder
	if viaBuilder {
		r.Arm += "+builder"
		cg, err := graphdb.NewChannelGraph(store, graphdb.WithSyncGraphCachePopulation(), graphdb.WithPreAllocCacheNumNodes(8))
		r.Must(err, "channel graph")
		r.Must(cg.Start(), "graph start")
		defer cg.Stop()
		builder, err = graph.NewBuilder(&graph.Config{
			Graph:              cg,
			ChannelPruneExpiry: graph.DefaultChannelPruneExpiry,
			IsAlias:            func(lnwire.ShortChannelID) bool { return false },
		})
		r.Must(err, "new builder")
	}

	base := int64(1_700_000_000)
	ts := base
	nextTs := func() time.Time { ts += 10; return time.Unix(ts, 0) }
	var chans []*raceChan
	for i := 0; i < nChans; i++ {
		id := lnwire.ShortChannelID{BlockHeight: uint32(100 + i), TxIndex: 1}.ToUint64()
		info, err := models.NewV1Channel(id, *chaincfg.MainNetParams.GenesisHash, raceVertex(1, i), raceVertex(2, i),
			&models.ChannelV1Fields{BitcoinKey1Bytes: raceVertex(3, i), BitcoinKey2Bytes: raceVertex(4, i)},
			models.WithChannelPoint(wire.OutPoint{Hash: chainhash.Hash{byte(i + 1)}, Index: 0}),
			models.WithCapacity(100_000))
		r.Must(err, "NewV1Channel")
		chans = append(chans, &raceChan{id: id, info: info})
	}
	policy := func(c *raceChan, dir int, t time.Time) *models.ChannelEdgePolicy {
		p := &models.ChannelEdgePolicy{
			Version: lnwire.GossipVersion1, SigBytes: bytes.Repeat([]byte{1}, 64), ChannelID: c.id, LastUpdate: t,
			MessageFlags: lnwire.ChanUpdateRequiredMaxHtlc, ChannelFlags: lnwire.ChanUpdateChanFlags(dir),
			TimeLockDelta: 40, MinHTLC: 1, MaxHTLC: 90_000_000, FeeBaseMSat: 1000, FeeProportionalMillionths: 1,
		}
		if dir == 0 {
			p.ToNode = c.info.NodeKey2Bytes
		} else {
			p.ToNode = c.info.NodeKey1Bytes
		}
		return p
	}

	// ---- sequential prologue (no gates): channels, first policies, caches
	// warm or cold -----------------------------------------------------------
	for _, c := range chans {
		if !r.Step() {
			break
		}
		r.Kind("setup")
		r.Must(store.AddChannelEdge(ctx, c.info), "AddChannelEdge")
		if tp.Draw(3) > 0 {
			_, _, err := store.UpdateEdgePolicy(ctx, policy(c, 0, nextTs()))
			r.Must(err, "UpdateEdgePolicy")
		}
		if tp.Draw(3) == 0 {
			_, _, err := store.UpdateEdgePolicy(ctx, policy(c, 1, nextTs()))
			r.Must(err, "UpdateEdgePolicy")
		}
		if tp.Draw(2) == 1 {
			_, err := raceHas(store, c.id)
			r.Must(err, "HasV1ChannelEdge")
		}
	}

	// ---- the tasks' programs, drawn before anything runs -----------------------
	type op struct {
		kind string
		c    *raceChan
		dir  int
		t    time.Time // builder mode: fixed when drawn
		err  error     // builder mode: what UpdateEdge returned
	}
	progs := make([][]op, nTasks)
	for ti := range progs {
		for k := 0; k < 3; k++ {
			if !r.Step() {
				break
			}
			r.Kind("program")
			if k > 0 && tp.Draw(3) == 0 {
				break
			}
			c := chans[tp.Draw(len(chans))]
			var o op
			switch d := tp.Draw(16); {
			case d < 6:
				o = op{kind: "has", c: c}
			case d < 11:
				o = op{kind: "update", c: c, dir: tp.Draw(2)}
			case d < 12:
				o = op{kind: "delete", c: c}
			case d < 13:
				o = op{kind: "add", c: c}
			case d < 14:
				o = op{kind: "live", c: c}
			case d < 15:
				o = op{kind: "filter", c: c}
			default:
				o = op{kind: "horizon", c: c}
			}
			if viaBuilder {
				switch o.kind {
				case "delete", "add", "live":
					o.kind = "update"
					o.dir = tp.Draw(2)
				}
				if o.kind == "update" {
					o.t = nextTs()
				}
			}
			progs[ti] = append(progs[ti], o)
			r.Logf("task%d op%d: %s chan %d dir %d ts %d", ti, k, o.kind, o.c.id, o.dir, o.t.Unix())
		}
	}

	rs.on = true
	if kv != nil {
		kv.OnTx = func(write bool) {
			if write {
				rs.gate("update-begin")
			} else {
				rs.gate("view-begin")
			}
		}
		kv.OnTxEnd = func(write bool) {
			if write {
				rs.gate("update-end")
			} else {
				rs.gate("view-end")
			}
		}
	}
	var (
		dmu      sync.Mutex
		finished int
		opsDone  []string // the Run's counters are not for concurrent use
	)
	var opts []batch.SchedulerOption
	if lazy {
		opts = append(opts, batch.LazyAdd())
	}
	for ti := range progs {
		ti := ti
		ready := make(chan struct{})
		go func() {
			rs.mu.Lock()
			rs.names[curGID()] = fmt.Sprintf("task%d", ti)
			rs.mu.Unlock()
			close(ready)
			rs.gate("start")
			for oi, o := range progs[ti] {
				switch o.kind {
				case "has":
					_, _ = raceHas(store, o.c.id)
				case "update":
					if builder != nil {
						err := builder.UpdateEdge(ctx, policy(o.c, o.dir, o.t), opts...)
						dmu.Lock()
						progs[ti][oi].err = err
						dmu.Unlock()
						break
					}
					o.c.wmu.Lock()
					dmu.Lock()
					t := nextTs()
					dmu.Unlock()
					_, _, _ = store.UpdateEdgePolicy(ctx, policy(o.c, o.dir, t), opts...)
					o.c.wmu.Unlock()
				case "delete":
					_, _ = store.DeleteChannelEdges(ctx, lnwire.GossipVersion1, false, true, o.c.id)
				case "add":
					o.c.wmu.Lock()
					_ = store.AddChannelEdge(ctx, o.c.info, opts...)
					o.c.wmu.Unlock()
				case "live":
					o.c.wmu.Lock()
					_ = store.MarkEdgeLive(ctx, lnwire.GossipVersion1, o.c.id)
					o.c.wmu.Unlock()
				case "filter":
					_, _, _ = store.FilterKnownChanIDs(ctx, lnwire.GossipVersion1,
						[]graphdb.ChannelUpdateInfo{{ShortChannelID: lnwire.NewShortChanIDFromInt(o.c.id)}})
				case "horizon":
					for _, err := range store.ChanUpdatesInHorizon(ctx, lnwire.GossipVersion1, graphdb.ChanUpdateRange{}) {
						if err != nil {
							break
						}
					}
				}
				dmu.Lock()
				opsDone = append(opsDone, o.kind)
				dmu.Unlock()
			}
			dmu.Lock()
			finished++
			dmu.Unlock()
		}()
		<-ready
	}
	rs.run(nTasks, func() int { dmu.Lock(); defer dmu.Unlock(); return finished })
	rs.mu.Lock()
	rs.on = false
	rs.mu.Unlock()
	if kv != nil {
		kv.OnTx, kv.OnTxEnd = nil, nil
	}
	for _, k := range opsDone {
		r.Count("race_op_" + k)
	}
	if rs.lockObs > 0 {
		r.Add("probe_race_goroutine_waited_for_a_lock", int64(rs.lockObs))
	}
	if rs.aux > 0 {
		r.Add("probe_race_batch_runner_goroutines", int64(rs.aux))
	}

	// ---- oracle: live (cached) answers == answers of a fresh store -----------------
	fresh, err := newFresh()
	r.Must(err, "fresh store")
	for _, c := range chans {
		live, err := raceHas(store, c.id)
		r.Must(err, "HasV1ChannelEdge (live)")
		disk, err := raceHas(fresh, c.id)
		r.Must(err, "HasV1ChannelEdge (fresh)")
		r.Count("race_coherence_checks")
		if live != disk {
			r.Fail("stale-freshness-cache", "after concurrent access the store answers HasChannelEdge(%d) with %s, but the database holds %s: every freshness check (IsStaleEdgePolicy, updateEdge) now compares incoming channel_updates with a last_update that is not the stored one",
				c.id, live, disk)
		}
	}
	// Builder mode: "applied only if strictly newer than the stored one". Every
	// update UpdateEdge accepted was newer than what was stored when it was
	// applied, so what is stored at the end is the newest accepted one.
	if builder != nil {
		type cd struct {
			id  uint64
			dir int
		}
		newest := map[cd]int64{}
		for _, prog := range progs {
			for _, o := range prog {
				if o.kind == "update" && o.err == nil && o.t.Unix() > newest[cd{o.c.id, o.dir}] {
					newest[cd{o.c.id, o.dir}] = o.t.Unix()
				}
			}
		}
		for _, c := range chans {
			disk, err := raceHas(fresh, c.id)
			r.Must(err, "HasV1ChannelEdge (fresh)")
			for dir, stored := range []int64{disk.u1, disk.u2} {
				if n := newest[cd{c.id, dir}]; n > 0 {
					r.Count("race_builder_freshness_checks")
					if stored < n {
						r.Fail("older-update-overwrote-newer", "graph.Builder.UpdateEdge accepted a channel_update with timestamp %d for channel %d direction %d, yet the stored policy ends at %d: an older update was written over a newer one (freshness check and write are not one step per channel)",
							n, c.id, dir, stored)
					}
				}
			}
		}
	}

	// Not judged (C20 speaks of what changes the graph and of what is relayed
	// on receipt, not of what a later gossip query serves): is the channel
	// cache behind ChanUpdatesInHorizon coherent too?
	horizon := func(st graphdb.Store) string {
		var out []string
		for e, err := range st.ChanUpdatesInHorizon(ctx, lnwire.GossipVersion1, graphdb.ChanUpdateRange{}) {
			if err != nil {
				return "error: " + err.Error()
			}
			t1, t2 := int64(0), int64(0)
			if e.Policy1 != nil {
				t1 = e.Policy1.LastUpdate.Unix()
			}
			if e.Policy2 != nil {
				t2 = e.Policy2.LastUpdate.Unix()
			}
			out = append(out, fmt.Sprintf("%d:%d/%d", e.Info.ChannelID, t1, t2))
		}
		sort.Strings(out)
		return strings.Join(out, " ")
	}
	if l, d := horizon(store), horizon(fresh); l != d {
		r.Count("probe_race_channel_cache_differs_from_disk")
		r.Logf("    note: ChanUpdatesInHorizon from the live store [%s] differs from a fresh store [%s]", l, d)
	}
	r.Nontrivial = r.Stats["race_schedule_choices"] > 0
}
