package gossipsim

import (
	"crypto/sha256"
	"bytes"
	"context"
	"fmt"
	"image/color"
	"os"
	"regexp"
	"runtime/debug"
	"strings"
	"sync"
	"testing"
	"testing/synctest"
	"time"

	"github.com/btcsuite/btcd/btcec/v2"
	"github.com/btcsuite/btcd/chaincfg/v2"
	"github.com/btcsuite/btcd/wire/v2"
	"github.com/lightningnetwork/lnd/lnwire"

	"verif/simcore"
)

// Config is the per-run swarm configuration.
type Config struct {
	Nodes     int
	Chans     int
	Peers     int
	SyncPeers int
	MaxSteps  int
	Burst     bool
	KVFault   bool // graph database write failures are injected under deliveries
	SQL       bool // graph store on sqlite instead of bbolt
	// Aging: the zombie-prune ticker of graph.Builder is brought within
	// reach of the fake clock (15 days) and the run may sleep past it, so
	// that channels whose policies are all older than the prune horizon
	// are pruned into the zombie index.
	Aging bool
	// StrictZombie (aging arm only): graph.Builder's StrictZombiePruning -
	// a channel is a zombie as soon as EITHER edge is older than the horizon,
	// and only the lagging side may bring it back.
	StrictZombie bool
	// BanThreshold: 100 is the daemon default; 4 lets a run reach the ban.
	BanThreshold uint64
	// Own (own-channels arm): the node itself is an endpoint of one or two
	// extra channels; the simulator plays the funding manager and the remote
	// endpoint (see own.go).
	Own bool
	// StoreRace (store-race arm, race.go): caller goroutines against the
	// graph store, scheduled at the database boundary.
	StoreRace bool
	// weights of the step kinds
	WCA, WCU, WNA, WDup, WTime, WBlock, WTrickle, WFilter, WBurst int
	// one in CorruptDen deliveries is corrupted at wire level, one in
	// VariantDen is a re-signed semantic variant
	CorruptDen, VariantDen int
}

// DrawConfig draws the swarm configuration.
var forceSQL = os.Getenv("GOSSIPSIM_SQL") != ""

// blockInsideBurst: in one burst out of four a block is mined while the
// messages of the burst are still being handled (it may spend the funding
// output of a channel the burst is about). The step oracle compares
// projections taken at step boundaries, so it needs to know what was in the
// graph in between: that comes from the probe store, which reads every channel
// after every commit of the graph database (seenStored / everStored). The arm
// therefore runs on bbolt only; on sqlite there is no commit hook and a
// channel that came and went inside the step would be misjudged as "relayed
// but never in the graph" (seen once in 45 000 experiment runs).
// GOSSIPSIM_BLOCK_IN_BURST=0 turns it off.
var blockInsideBurst = os.Getenv("GOSSIPSIM_BLOCK_IN_BURST") != "0"

// noConcurrent maps the concurrent arm onto the sequential one (used by the
// determinism self-test, which compares trace hashes exactly).
var noConcurrent = os.Getenv("GOSSIPSIM_NO_CONCURRENT") != ""

func DrawConfig(t *simcore.Tape, thorough bool) Config {
	c := Config{
		Nodes:      3 + t.CfgDraw(3),
		Chans:      2 + t.CfgDraw(3),
		Peers:      2 + t.CfgDraw(3),
		MaxSteps:   []int{40, 60, 90}[t.CfgDraw(3)],
		WCA:        []int{3, 5, 8}[t.CfgDraw(3)],
		WCU:        []int{6, 10, 16}[t.CfgDraw(3)],
		WNA:        []int{2, 4, 6}[t.CfgDraw(3)],
		WDup:       []int{1, 3, 6}[t.CfgDraw(3)],
		WTime:      []int{1, 2, 4}[t.CfgDraw(3)],
		WBlock:     []int{1, 2, 3}[t.CfgDraw(3)],
		WTrickle:   []int{1, 2, 3}[t.CfgDraw(3)],
		WFilter:    []int{0, 1, 2}[t.CfgDraw(3)],
		CorruptDen: []int{3, 5, 8}[t.CfgDraw(3)],
		VariantDen: []int{3, 5, 8}[t.CfgDraw(3)],
	}
	c.SyncPeers = 1 + t.CfgDraw(c.Peers)
	switch a := t.CfgDraw(16); {
	case a == 3:
		// store-race arm (was: one of four values of the plain sequential arm)
		c.StoreRace = true
	case a == 4 || a == 5:
		// own-channels arm; its further draws come last (addOwnChannels)
		c.Own = true
	case a >= 6 && a <= 8:
		c.Aging = true
		c.StrictZombie = t.CfgDraw(2) == 1
	case a >= 9 && a <= 12:
		c.Burst = true
	case a == 13 || a == 14:
		c.KVFault = true
	case a == 15:
		c.SQL = true
		c.Burst = t.CfgDraw(2) == 1
	}
	if noConcurrent {
		c.Burst = false
	}
	if c.Burst {
		c.WBurst = 6
	}
	c.BanThreshold = []uint64{100, 100, 4}[t.CfgDraw(3)]
	if thorough {
		c.MaxSteps *= 2
	}
	if forceSQL {
		c.SQL = true
	}
	return c
}

// Sim is one simulated execution.
type Sim struct {
	r   *simcore.Run
	cfg Config
	w   *World
	u   *Universe

	proj         *projection
	byWire       map[string]*msgInfo
	order        []*msgInfo // delivery order of distinct messages
	everChan     map[uint64]*pChan
	everEndpoint map[[33]byte]bool

	dirty map[string]bool // wire messages generated with a variant or corruption
	// Sequential arm only: what the node is known to have buffered, so that
	// the simulator never makes it replay two conflicting messages at once
	// (their relative order would be the Go scheduler's choice).
	futurePending    map[uint64]uint32 // scid -> its block height (beyond the tip)
	prematurePending map[string]bool   // "scid/dir" of an update buffered for an unknown channel
	lastTs           map[string]uint32 // highest timestamp generated per key
	applied          int
	spends           int
	dbFaults         int
	selfloop         bool // a channel with node_id_1 == node_id_2 has been in the graph
	// aging arm
	ages        int               // long sleeps so far
	agedSince   bool              // a zombie prune may have run since the last check
	zombieSince map[uint64]uint32 // scid pruned as a zombie -> unix time of the prune
	// liveUpd: scid -> a channel_update for it was delivered after it became
	// a zombie whose timestamp was within the prune horizon at delivery
	liveUpd  map[uint64]bool
	curWires map[string]bool // messages delivered in the current step
	rejected int
	corrupt  int
	step     int
	// own-channels arm
	self       *uNode
	own        map[uint64]*ownChan
	ownList    []*ownChan
	stepKind   string
	cameOnline bool // a channel peer connected in the current step
	// premature announcement_signatures the node buffers, per named scid
	annsigPending map[uint64]*annsigBuffered
	// bbolt worlds: every (channel, direction, timestamp) ever durably stored
	storedMu   sync.Mutex
	everStored map[storedKey]bool
	// the latest stored form of every channel that was ever in the database,
	// also of those that came and went within one step
	seenStored map[uint64]*pChan
	// every channel_announcement (as read back from the store) ever stored
	everCAWire map[string]bool
	// nodes the probe store saw absent (or as a shell without announcement)
	// at some commit since the last check: a node that lost its last channel
	// to a block is pruned, and an announcement that arrives afterwards in the
	// same step meets no stored one to be newer than
	nodeGone map[[33]byte]bool
	// a block was mined inside the burst of the current step
	blockInBurst bool
}

type storedKey struct {
	scid uint64
	dir  int
	ts   uint32
}

var hexAddr = regexp.MustCompile(`0x[0-9a-f]{6,}`)

func cleanErr(err error) string {
	if err == nil {
		return "accepted(nil)"
	}
	s := hexAddr.ReplaceAllString(err.Error(), "0x?")
	s = strings.ReplaceAll(s, "\n", " ")
	if len(s) > 110 {
		s = s[:110] + "..."
	}
	return "error: " + s
}

// Run executes one simulated run inside a synctest bubble. Violations and
// harness errors raised inside the bubble are carried out of it and raised
// again on the caller's goroutine.
func Run(t *testing.T, r *simcore.Run, thorough bool) {
	cfg := DrawConfig(r.Tape, thorough)
	// One value of the arm draw is the store-race arm (race.go), which runs
	// outside a bubble; its own configuration draws follow.
	if cfg.StoreRace || os.Getenv("VERIF_C20_ONLY_RACE") != "" {
		RunStoreRace(r)
		return
	}
	switch {
	case cfg.Own:
		r.Arm = "own-channels"
	case cfg.Burst:
		r.Arm = "concurrent"
	case cfg.KVFault:
		r.Arm = "sequential+db-write-failures"
	default:
		r.Arm = "sequential"
	}
	if cfg.SQL {
		r.Arm = "sqlite/" + r.Arm
	} else {
		r.Arm = "bbolt/" + r.Arm
	}
	var carried interface{}
	var foreign string
	if traceDir != "" && !r.Tape.Replay() {
		traceFile, _ = os.Create(fmt.Sprintf("%s/%d.txt", traceDir, r.Seed))
		defer func() { traceFile.Close(); traceFile = nil }()
	}
	// Real-time watchdog (outside the bubble): a bubble whose goroutines are
	// blocked in a way synctest does not count as idle would hang forever.
	wd := time.AfterFunc(90*time.Second, func() {
		fmt.Fprintf(os.Stderr, "HARNESS: gossipsim run seed=%d did not finish within 90s of real time (bubble stuck)\n", r.Seed)
		os.Exit(2)
	})
	defer wd.Stop()
	synctest.Test(t, func(t *testing.T) {
		s := &Sim{r: r, cfg: cfg, byWire: map[string]*msgInfo{}, everChan: map[uint64]*pChan{},
			everEndpoint: map[[33]byte]bool{}, lastTs: map[string]uint32{}, dirty: map[string]bool{},
			futurePending: map[uint64]uint32{}, prematurePending: map[string]bool{},
			annsigPending: map[uint64]*annsigBuffered{}}
		defer func() {
			if p := recover(); p != nil {
				carried = p
				tn := fmt.Sprintf("%T", p)
				if tn != "simcore.violationPanic" && tn != "simcore.harnessPanic" {
					foreign = string(debug.Stack())
				}
			}
			func() {
				defer func() { _ = recover() }()
				if s.w != nil {
					s.w.Stop()
				}
			}()
		}()
		s.run()
	})
	if carried == nil {
		return
	}
	if foreign == "" {
		panic(carried)
	}
	if panicFromHarness(foreign) {
		r.Harness("panic in simulator: %v\n%s", carried, foreign)
	}
	r.Fail("PANIC", "panic in code under test: %v\n%s", carried, trim(foreign, 40))
}

func trim(s string, n int) string {
	l := strings.Split(s, "\n")
	if len(l) > n {
		l = l[:n]
	}
	return strings.Join(l, "\n")
}

// panicFromHarness: is the first non-runtime frame below panic() simulator code?
func panicFromHarness(stack string) bool {
	lines := strings.Split(stack, "\n")
	seen := false
	for i := 0; i < len(lines); i++ {
		l := lines[i]
		if strings.HasPrefix(l, "panic(") {
			seen = true
			continue
		}
		if !seen || strings.HasPrefix(l, "\t") || l == "" ||
			strings.HasPrefix(l, "runtime.") || strings.HasPrefix(l, "runtime/") {
			continue
		}
		return strings.HasPrefix(l, "verif/")
	}
	return true
}

func (s *Sim) buildUniverse() *SimChain {
	r := s.r
	t := r.Tape
	chain := NewSimChain()
	u := &Universe{chainHash: *chaincfg.MainNetParams.GenesisHash}
	for i := 0; i < s.cfg.Nodes; i++ {
		u.nodes = append(u.nodes, newNode(i))
	}
	u.stranger = newNode(99)

	type plan struct {
		c      *uChan
		height int32
		tx     *wire.MsgTx
		spend  bool
	}
	var plans []plan
	for i := 0; i < s.cfg.Chans; i++ {
		a := t.CfgDraw(len(u.nodes))
		b := (a + 1 + t.CfgDraw(len(u.nodes)-1)) % len(u.nodes)
		na, nb := u.nodes[a], u.nodes[b]
		if string(na.pub[:]) > string(nb.pub[:]) {
			na, nb = nb, na
		}
		c := &uChan{idx: i, n: [2]*uNode{na, nb}, capacity: int64(100_000 * (1 + t.CfgDraw(20)))}
		for k := 0; k < 2; k++ {
			p, err := btcec.NewPrivateKey()
			r.Must(err, "bitcoin key")
			c.btc[k] = p
			copy(c.btcPub[k][:], p.PubKey().SerializeCompressed())
		}
		// half of the channels are plain; the rest draw a funding situation
		c.kind = fundOK
		if t.CfgDraw(2) == 1 {
			c.kind = t.CfgDraw(numFundKinds)
		}
		script := p2wsh2of2(c.btcPub[0][:], c.btcPub[1][:])
		switch c.kind {
		case fundWrongScript:
			script = p2wsh2of2(c.btcPub[0][:], u.stranger.pub[:])
		case fundNotMultisig:
			script = append([]byte{0x00, 0x14}, c.btcPub[0][1:21]...)
		}
		tx := wire.NewMsgTx(2)
		tx.AddTxIn(&wire.TxIn{PreviousOutPoint: wire.OutPoint{Hash: [32]byte{byte(i + 1)}, Index: uint32(i)}, Sequence: 0xffffffff})
		outIdx := t.CfgDraw(2)
		for o := 0; o <= outIdx; o++ {
			sc := []byte{0x51}
			val := int64(1000 + o)
			if o == outIdx {
				sc, val = script, c.capacity
			}
			tx.AddTxOut(&wire.TxOut{Value: val, PkScript: sc})
		}
		// further outputs behind the funding output (no new draw: older
		// replay files stay valid), so that the transaction has an output at
		// its own index in the block, at the index of the channel's other
		// short-channel-id fields: whoever looks at the wrong output of the
		// right transaction finds one, unspent
		for e := 0; e < i%3+1; e++ {
			tx.AddTxOut(&wire.TxOut{Value: int64(4000 + 10*e + i), PkScript: []byte{0x51}})
		}
		height := int32(startHeight - 10 + t.CfgDraw(8))
		if c.kind == fundFuture {
			height = int32(startHeight + 1 + t.CfgDraw(3))
		}
		plans = append(plans, plan{c: c, height: height, tx: tx, spend: c.kind == fundSpentEarly})
		txIndex := chain.Plan(height, tx)
		c.scid = lnwire.ShortChannelID{BlockHeight: uint32(height), TxIndex: uint32(txIndex), TxPosition: uint16(outIdx)}
		c.outpoint = wire.OutPoint{Hash: tx.TxHash(), Index: uint32(outIdx)}
		switch c.kind {
		case fundMissingTx:
			c.scid.TxIndex += 7
		case fundMissingOut:
			c.scid.TxPosition += 5
		}
		u.chans = append(u.chans, c)
	}
	if s.cfg.Own {
		s.addOwnChannels(chain, u)
	}
	for chain.Height() < startHeight {
		var extra []*wire.MsgTx
		if chain.Height()+1 == startHeight-1 {
			for _, p := range plans {
				if p.spend {
					extra = append(extra, SpendTx(p.c.outpoint))
				}
			}
		}
		chain.MineSilently(extra...)
	}
	s.u = u
	for _, c := range u.chans {
		logf(r, "universe: chan %d scid=%s %s-%s cap=%d funding=%s", c.idx, scidStr(c.scid.ToUint64()),
			short(c.n[0].pub[:]), short(c.n[1].pub[:]), c.capacity, fundNames[c.kind])
	}
	return chain
}

type op struct {
	kind   string
	weight int
}

func (s *Sim) run() {
	r := s.r
	chain := s.buildUniverse()
	self := s.self
	if self == nil {
		self = newNode(100)
	}
	var ownChans []*uChan
	for _, c := range s.u.chans {
		if c.own {
			ownChans = append(ownChans, c)
		}
	}
	if s.cfg.Own && s.cfg.SQL {
		r.Arm = "sqlite/own-channels"
	}
	agingWorld = s.cfg.Aging
	strictZombieWorld = s.cfg.StrictZombie
	s.zombieSince, s.liveUpd = map[uint64]uint32{}, map[uint64]bool{}
	s.w = NewWorld(r, chain, self, s.cfg.Peers, s.cfg.SyncPeers, s.cfg.SQL, s.cfg.BanThreshold, ownChans)
	if s.w.probe != nil {
		// Every policy timestamp that was ever durably stored, read after
		// each commit of the graph database: "relayed" has to imply "was
		// applied at some point", also when the channel is gone again or a
		// newer policy replaced it by the time the step is judged.
		s.everStored = map[storedKey]bool{}
		s.seenStored = map[uint64]*pChan{}
		s.everCAWire = map[string]bool{}
		scids := make([]uint64, 0, len(s.u.chans))
		for _, c := range s.u.chans {
			scids = append(scids, c.scid.ToUint64())
		}
		s.nodeGone = map[[33]byte]bool{}
		s.w.kv.OnCommitted = func(int) {
			for _, n := range s.u.nodes {
				ts, ok, err := s.w.probe.HasV1Node(context.Background(), n.pub)
				if err == nil && (!ok || ts.Unix() <= 0) {
					s.storedMu.Lock()
					s.nodeGone[n.pub] = true
					s.storedMu.Unlock()
				}
			}
			for _, id := range scids {
				info, p1, p2, err := s.w.probe.FetchChannelEdgesByID(context.Background(), lnwire.GossipVersion1, id)
				if err != nil || info == nil {
					continue
				}
				s.storedMu.Lock()
				pc := projChan(info, p1, p2)
				s.seenStored[id] = pc
				if pc.wire != nil {
					s.everCAWire[string(pc.wire)] = true
				}
				if p1 != nil {
					s.everStored[storedKey{id, 0, uint32(p1.LastUpdate.Unix())}] = true
				}
				if p2 != nil {
					s.everStored[storedKey{id, 1, uint32(p2.LastUpdate.Unix())}] = true
				}
				s.storedMu.Unlock()
			}
		}
	}
	logf(r, "config: %+v", s.cfg)
	if s.cfg.Own {
		s.initOwn()
	}
	s.proj = s.w.readProjection()
	s.w.drain()

	for s.step < s.cfg.MaxSteps && r.Step() {
		s.step++
		s.curWires = map[string]bool{}
		wca := s.cfg.WCA
		if s.missingGood() {
			wca *= 4
		}
		ops := []op{{"cu", s.cfg.WCU}, {"ca", wca}, {"na", s.cfg.WNA},
			{"time", s.cfg.WTime}, {"block", s.cfg.WBlock}, {"trickle", s.cfg.WTrickle}}
		if len(s.order) > 0 {
			ops = append(ops, op{"dup", s.cfg.WDup})
		}
		if s.cfg.WFilter > 0 {
			ops = append(ops, op{"filter", s.cfg.WFilter})
		}
		if s.cfg.Aging && s.ages < 2 && s.step > 8 {
			ops = append(ops, op{"age", 2})
		}
		if s.cfg.WBurst > 0 {
			ops = append(ops, op{"burst", s.cfg.WBurst})
		}
		ops = append(ops, s.ownOps()...)
		total := 0
		for _, o := range ops {
			total += o.weight
		}
		pick := r.Draw(total)
		kind := ops[0].kind
		for _, o := range ops {
			if pick < o.weight {
				kind = o.kind
				break
			}
			pick -= o.weight
		}
		var what string
		s.stepKind = kind
		switch kind {
		case "own-open", "own-cu", "own-half-local", "own-half-remote", "own-peer-off", "own-peer-on":
			what = s.ownStep(kind)
		case "ca", "cu", "na", "dup":
			w, label := s.genMessage(kind)
			r.Kind(kind)
			what = s.deliverOne(w, label)
		case "burst":
			r.Kind("burst")
			n := 2 + r.Draw(3)
			var ds []*pending
			for i := 0; i < n; i++ {
				k := []string{"cu", "ca", "na", "cu", "dup"}[r.Draw(5)]
				if k == "dup" && len(s.order) == 0 {
					k = "cu"
				}
				w, label := s.genMessage(k)
				if p := s.send(w, label); p != nil {
					ds = append(ds, p)
				}
			}
			blk := ""
			if blockInsideBurst && s.seenStored != nil && r.Draw(4) == 0 {
				// a block (possibly closing one of the channels the burst is
				// about) arrives while the messages are still being handled
				s.blockInBurst = true
				blk = " and " + s.mine()
				r.Count("probe_block_inside_burst")
			}
			s.w.settle()
			for _, p := range ds {
				s.report(p)
			}
			r.Count("burst_steps")
			what = fmt.Sprintf("after a burst of %d messages%s", len(ds), blk)
		case "time":
			d := []time.Duration{time.Second, 61 * time.Second, 11 * time.Minute, 25 * time.Hour}[r.Draw(4)]
			r.Kind("time:" + d.String())
			logf(r, "#%d clock +%v", s.step, d)
			time.Sleep(d)
			s.w.settle()
			what = "after advancing the clock by " + d.String()
		case "age":
			// sleep past the zombie-prune interval: graph.Builder
			// prunes every channel whose two policies are both older
			// than the prune horizon (or missing)
			d := pruneInterval + time.Hour
			r.Kind("age:" + d.String())
			logf(r, "#%d clock +%v (zombie prune due)", s.step, d)
			time.Sleep(d)
			s.w.settle()
			s.ages++
			s.agedSince = true
			r.Count("fault_long_sleep_past_prune_interval")
			what = "after sleeping past the zombie-prune interval"
		case "trickle":
			r.Kind("trickle")
			logf(r, "#%d trickle interval passes", s.step)
			time.Sleep(trickleDelay)
			s.w.settle()
			what = "after a trickle interval"
		case "block":
			what = s.mine()
		case "filter":
			what = s.applyFilter()
		}
		s.w.answerQueries()
		s.check(what)
	}

	s.curWires = map[string]bool{}
	s.stepKind = "wind-down"
	// Flush: let every batched broadcast leave the node and judge it too.
	time.Sleep(2 * trickleDelay)
	s.w.settle()
	s.check("at wind-down")
	logf(r, "final graph: %s", s.proj.summary())
	for _, p := range s.w.peers {
		if p.dropped {
			r.Count("probe_peer_disconnected_by_ban")
		}
	}
	r.Nontrivial = s.applied >= 3 && s.rejected >= 1
}

// missingGood: some channel with a sound funding output is not in the graph.
func (s *Sim) missingGood() bool {
	for _, c := range s.u.chans {
		if (c.kind != fundOK && c.kind != fundFuture) || c.own {
			continue
		}
		if _, ok := s.proj.chans[c.scid.ToUint64()]; ok {
			continue
		}
		t := s.w.chain.Lookup(c.scid.BlockHeight, c.scid.TxIndex, c.scid.TxPosition)
		if t.Exists && !t.Spent {
			return true
		}
	}
	return false
}

// mine extends the chain by one block, possibly spending a funding output.
func (s *Sim) mine() string {
	r := s.r
	var cands []*uChan
	for _, c := range s.u.chans {
		t := s.w.chain.Lookup(c.scid.BlockHeight, c.scid.TxIndex, c.scid.TxPosition)
		if t.Exists && !t.Spent {
			cands = append(cands, c)
		}
	}
	var extra []*wire.MsgTx
	label := "empty"
	if len(cands) > 0 && s.spends < 2 && r.Chance(1, 5) {
		s.spends++
		c := cands[r.Draw(len(cands))]
		t := s.w.chain.Lookup(c.scid.BlockHeight, c.scid.TxIndex, c.scid.TxPosition)
		extra = append(extra, SpendTx(t.OutPoint))
		label = fmt.Sprintf("spends funding of chan %d (%s)", c.idx, scidStr(c.scid.ToUint64()))
		r.Count("fault_funding_spent")
	}
	r.Kind("block")
	h, toView, toEpochs := s.w.chain.MineBlock(extra...)
	order := "graph builder hears first"
	if r.Draw(2) == 1 {
		toView, toEpochs = toEpochs, toView
		order = "gossiper hears first"
	}
	logf(r, "#%d block %d mined: %s; %s", s.step, h, label, order)
	if s.cfg.Burst && r.Draw(2) == 1 {
		// concurrent arm: both notifications at once
		toView()
		toEpochs()
	} else {
		toView()
		s.w.settle()
		toEpochs()
	}
	s.w.settle()
	for k, height := range s.futurePending {
		if height <= uint32(h) {
			delete(s.futurePending, k)
		}
	}
	for k, b := range s.annsigPending {
		if b.need <= uint32(h) {
			delete(s.annsigPending, k)
		}
	}
	return fmt.Sprintf("after block %d (%s)", h, label)
}

// applyFilter: a peer with a gossip syncer sets its gossip_timestamp_range,
// which makes the node dump matching graph content to it.
func (s *Sim) applyFilter() string {
	r := s.r
	var cands []*simPeer
	for _, p := range s.w.peers {
		if p.hasSync && !p.dropped {
			cands = append(cands, p)
		}
	}
	r.Kind("filter")
	if len(cands) == 0 {
		return "after nothing"
	}
	p := cands[r.Draw(len(cands))]
	first := uint32(0)
	if r.Draw(3) == 2 {
		first = uint32(time.Now().Unix())
	}
	logf(r, "#%d %s sets gossip_timestamp_range first=%d", s.step, p.name, first)
	s.w.gsp.ProcessRemoteAnnouncement(s.w.ctx, &lnwire.GossipTimestampRange{
		ChainHash: s.u.chainHash, FirstTimestamp: first, TimestampRange: 0xffffffff,
	}, p)
	p.filterOn = true
	s.w.settle()
	r.Count("filter_set")
	return "after " + p.name + " set its gossip filter"
}

type pending struct {
	d      *delivery
	label  string
	peer   string
	bufKey string
}

// send delivers wire bytes w from a drawn peer (no settling).
//
// The gossiper keeps a reject cache keyed by (channel id, sending peer) that
// never expires: one bad announcement from a peer silences that peer for the
// channel. To keep runs productive, peer P0 is an honest relay (it only ever
// forwards messages that were generated without corruption or variant), the
// other peers forward anything; a clean message comes from P0 half of the
// time.
func (s *Sim) send(w []byte, label string) *pending {
	r := s.r
	msg, err := decode(w)
	if err != nil {
		// The transport layer would drop the connection; the gossiper
		// never sees the message.
		logf(r, "#%d [%s] does not decode (%s): not delivered", s.step, label, cleanErr(err))
		r.Count("undecodable")
		return nil
	}
	var cands []*simPeer
	for _, p := range s.w.peers {
		if !p.dropped {
			cands = append(cands, p)
		}
	}
	if len(cands) == 0 {
		logf(r, "#%d every peer has been disconnected: [%s] not delivered", s.step, label)
		return nil
	}
	bufKey := ""
	if !s.cfg.Burst {
		var scid lnwire.ShortChannelID
		dir := -1
		switch m := msg.(type) {
		case *lnwire.ChannelAnnouncement1:
			scid = m.ShortChannelID
		case *lnwire.ChannelUpdate1:
			scid = m.ShortChannelID
			dir = int(m.ChannelFlags & lnwire.ChanUpdateDirection)
		}
		if _, isNA := msg.(*lnwire.NodeAnnouncement1); !isNA {
			id := scid.ToUint64()
			if scid.BlockHeight > uint32(s.w.chain.Height()) {
				if _, busy := s.futurePending[id]; busy {
					logf(r, "#%d [%s] withheld: the node already buffers a message for that future channel", s.step, label)
					r.Count("withheld_for_determinism")
					return nil
				}
				s.futurePending[id] = scid.BlockHeight
				r.Count("probe_future_height_msg_buffered")
			} else if dir >= 0 && s.proj.chans[id] == nil {
				bufKey = fmt.Sprintf("%d/%d", id, dir)
				if s.prematurePending[bufKey] {
					logf(r, "#%d [%s] withheld: the node already buffers an update for that unknown channel and direction", s.step, label)
					r.Count("withheld_for_determinism")
					return nil
				}
			}
		}
	}
	dirty := s.dirty[string(w)]
	var p *simPeer
	switch {
	case dirty && len(cands) > 1 && cands[0] == s.w.peers[0]:
		p = cands[1+r.Draw(len(cands)-1)]
	case !dirty && cands[0] == s.w.peers[0] && r.Draw(2) == 0:
		p = cands[0]
	default:
		p = cands[r.Draw(len(cands))]
	}
	// One message in four comes straight from the node it speaks for (the
	// announced node of a node_announcement, the signer slot of a
	// channel_update's direction, node 1 of a channel_announcement): a peer
	// whose identity key IS that node's key - the usual case on the real
	// network. Decided by the message bytes, not by a draw (the draw above
	// is still made).
	if np := s.originPeer(msg, w); np != nil {
		p = np
		r.Count("probe_delivered_by_the_node_the_message_speaks_for")
	}
	s.remember(w, label)
	s.curWires[string(w)] = true
	logf(r, "#%d %s delivers [%s]", s.step, p.name, label)
	r.Count("delivered")
	return &pending{d: s.w.Deliver(p, msg), label: label, peer: p.name, bufKey: bufKey}
}

// originPeer returns the peer whose identity is the node the message speaks
// for, for one message in four; nil otherwise, if that node is ours or
// unknown to the universe, or if that peer has been disconnected.
func (s *Sim) originPeer(msg lnwire.Message, w []byte) *simPeer {
	h := sha256.Sum256(w)
	if h[0]%4 != 0 {
		return nil
	}
	var pub [33]byte
	switch m := msg.(type) {
	case *lnwire.NodeAnnouncement1:
		pub = m.NodeID
	case *lnwire.ChannelAnnouncement1:
		pub = m.NodeID1
	case *lnwire.ChannelUpdate1:
		for _, c := range s.u.chans {
			if c.scid == m.ShortChannelID {
				pub = c.n[int(m.ChannelFlags&lnwire.ChanUpdateDirection)].pub
			}
		}
	default:
		return nil
	}
	var n *uNode
	for _, c := range append(append([]*uNode{}, s.u.nodes...), s.u.stranger) {
		if c.pub == pub {
			n = c
		}
	}
	if n == nil || pub == s.w.self.pub {
		return nil
	}
	if cp := s.w.chanPeerByKey(pub); cp != nil {
		// the remote end of one of our own channels has its own peer object
		return nil
	}
	np := s.w.nodePeer(n)
	if np.dropped {
		return nil
	}
	return np
}

func (s *Sim) report(p *pending) {
	p.d.mu.Lock()
	done, err := p.d.done, p.d.err
	p.d.mu.Unlock()
	if !done {
		logf(s.r, "  [%s] -> no answer (buffered)", p.label)
		s.r.Count("probe_buffered_no_answer")
		if p.bufKey != "" {
			s.prematurePending[p.bufKey] = true
		}
		return
	}
	if err != nil {
		s.rejected++
		if strings.Contains(err.Error(), "panic while") {
			s.r.Count("probe_handler_panic_recovered")
		}
	}
	logf(s.r, "  [%s] -> %s", p.label, cleanErr(err))
}

func (s *Sim) deliverOne(w []byte, label string) string {
	r := s.r
	armed := false
	if s.cfg.KVFault && r.Chance(1, 5) {
		// the next one or two write transactions of the graph database
		// fail (disk full); the batch layer retries a failed batch once
		// per request, so two in a row make the operation itself fail
		n := 1 + r.Draw(2)
		s.w.failWrites(n)
		armed = true
	}
	// One channel_announcement in six meets a chain backend whose GetUtxo
	// fails with an I/O error (decided by the message bytes, no draw): an
	// announcement whose funding output could not be looked up must not
	// enter the graph on the strength of the block alone.
	utxoFault := len(w) > 2 && int(w[0])<<8|int(w[1]) == typeChanAnn && sha256.Sum256(w)[1]%6 == 0
	if utxoFault {
		s.w.chain.FailUtxo(true)
	}
	p := s.send(w, label)
	s.w.settle()
	if p != nil {
		s.report(p)
	}
	what := "after delivery of [" + label + "]"
	if utxoFault {
		if fired := s.w.chain.FailUtxo(false); fired > 0 {
			logf(r, "  (%d GetUtxo call(s) failed with an injected I/O error)", fired)
			r.Add("fault_chain_getutxo_io_error", int64(fired))
			what += fmt.Sprintf(" with %d failed GetUtxo call(s)", fired)
		}
	}
	if armed {
		if fired := s.w.stopFailing(); fired > 0 {
			logf(r, "  (%d graph database write(s) failed with an injected I/O error)", fired)
			r.Add("fault_db_write_failed", int64(fired))
			s.dbFaults += fired
			what += fmt.Sprintf(" with %d failed database write(s)", fired)
		}
	}
	return what
}

// remember records a delivered message and whether it is fresh against the
// graph as of the last check.
func (s *Sim) remember(w []byte, label string) {
	mi := s.byWire[string(w)]
	if mi == nil {
		mi = &msgInfo{wire: w, label: label, first: s.step}
		if len(w) >= 2 {
			mi.kind = int(w[0])<<8 | int(w[1])
		}
		s.byWire[string(w)] = mi
		s.order = append(s.order, mi)
	}
	mi.n++
	switch mi.kind {
	case typeChanUpdate:
		if m, ok := parseCU(w); ok {
			if since, z := s.zombieSince[m.scid]; z && m.ts+uint32(pruneHorizon/time.Second) >= s.nowTs() && m.ts >= since-uint32(pruneHorizon/time.Second) {
				// only an update signed by the node that owns its
				// direction can bring a zombie back
				if ec := s.everChan[m.scid]; ec != nil && m.signedBy(ec.node[m.dir()][:]) && bytes.Equal(m.chainHash, s.u.chainHash[:]) {
					s.liveUpd[m.scid] = true
				}
			}
			c := s.proj.chans[m.scid]
			if c == nil || c.pol[m.dir()] == nil || c.pol[m.dir()].ts < m.ts {
				mi.fresh = true
			}
		}
	case typeNodeAnn:
		if m, ok := parseNA(w); ok {
			var key [33]byte
			copy(key[:], m.nodeID)
			n := s.proj.nodes[key]
			if n == nil || n.wire == nil || n.ts < m.ts {
				mi.fresh = true
			}
		}
	}
}

func (s *Sim) nowTs() uint32 { return uint32(time.Now().Unix()) }

// pickTs chooses a timestamp relative to what the graph holds (stored, 0 if
// nothing) and what was generated before for the same key.
func (s *Sim) pickTs(key string, stored uint32) (uint32, string) {
	r := s.r
	now := s.nowTs()
	hi := now
	if stored > hi {
		hi = stored
	}
	if s.lastTs[key] > hi {
		hi = s.lastTs[key]
	}
	var ts uint32
	var name string
	switch m := r.Draw(20); {
	case m < 10:
		ts, name = hi+1+uint32(r.Draw(3)), "newer"
	case m < 13:
		ts, name = stored, "equal"
		if stored == 0 {
			ts, name = now, "now"
		}
	case m < 16:
		ts, name = stored-1-uint32(r.Draw(50)), "older"
		if stored < 100 {
			ts, name = now-1-uint32(r.Draw(50)), "past"
		}
	case m < 18:
		ts, name = hi+86400+uint32(r.Draw(100)), "next-day"
	case m < 19:
		ts, name = now+15*86400, "far-future"
	default:
		ts, name = 0, "zero"
	}
	if ts > s.lastTs[key] && name != "far-future" {
		s.lastTs[key] = ts
	}
	return ts, name
}

// genMessage builds the wire bytes of the next message to deliver.
func (s *Sim) genMessage(kind string) ([]byte, string) {
	r := s.r
	u := s.u
	var w []byte
	var label string
	dirty := false
	defer func() {
		if dirty {
			s.dirty[string(w)] = true
		}
	}()
	switch kind {
	case "dup":
		mi := s.order[r.Draw(len(s.order))]
		r.Count("dup_delivered")
		return mi.wire, mi.label
	case "ca":
		c := u.chans[r.Draw(len(u.chans))]
		sp := u.baseCA(c)
		label = fmt.Sprintf("CA chan%d", c.idx)
		if r.Chance(1, s.cfg.VariantDen) {
			switch r.Draw(10) {
			case 9:
				// one signature made by the key stated for another slot
				k := r.Draw(4)
				j := (k + 1 + r.Draw(3)) % 4
				sp.signers[k] = sp.signers[j]
				label += fmt.Sprintf(" signature %d made by the key of slot %d", k, j)
			case 0:
				sp.signers[1] = u.stranger.priv
				label += " node-sig-2 by stranger"
			case 1:
				sp.signers[2+r.Draw(2)] = u.stranger.priv
				label += " bitcoin-sig by stranger"
			case 2:
				o := u.chans[(c.idx+1)%len(u.chans)]
				sp.scid = o.scid
				label += fmt.Sprintf(" claims scid of chan%d (re-signed)", o.idx)
			case 3:
				n := u.nodes[r.Draw(len(u.nodes))]
				sp.nodeKeys[1] = n
				sp.signers[1] = n.priv
				label += fmt.Sprintf(" node2:=%s (re-signed)", short(n.pub[:]))
			case 4:
				sp.chainHash = *chaincfg.TestNet3Params.GenesisHash
				label += " other chain (re-signed)"
			case 5:
				sp.features = lnwire.NewRawFeatureVector(lnwire.FeatureBit(1 + 2*r.Draw(7)))
				label += " odd feature bit (re-signed)"
			case 6:
				sp.extra = tlvBlob(byte(r.Draw(200)))
				label += " extra tlv (re-signed)"
			case 7:
				sp.btcKeys[0] = u.stranger.priv
				sp.signers[2] = u.stranger.priv
				label += " bitcoin-key-1:=stranger (re-signed)"
			case 8:
				sp.nodeKeys[0] = s.w.self
				sp.signers[0] = s.w.self.priv
				label += " node1:=our own key (re-signed)"
			}
			dirty = true
			r.Count("variant_ca")
		}
		w = sp.wire()
	case "cu":
		c := u.chans[r.Draw(len(u.chans))]
		d := r.Draw(2)
		key := fmt.Sprintf("cu/%d/%d", c.idx, d)
		var stored uint32
		if pc := s.proj.chans[c.scid.ToUint64()]; pc != nil && pc.pol[d] != nil {
			stored = pc.pol[d].ts
		}
		ts, tsName := s.pickTs(key, stored)
		sp := cuSpec{
			scid: c.scid, chainHash: u.chainHash, ts: ts,
			msgFlags:  lnwire.ChanUpdateRequiredMaxHtlc,
			chanFlags: lnwire.ChanUpdateChanFlags(d),
			cltv:      uint16(40 + 20*r.Draw(3)),
			minHtlc:   1000,
			maxHtlc:   uint64(c.capacity) * 1000 / uint64(1+r.Draw(3)),
			baseFee:   uint32(1 + 1000*r.Draw(4)),
			feeRate:   uint32(1 + r.Draw(4)),
			signer:    c.n[d].priv,
		}
		if r.Chance(1, 5) {
			sp.chanFlags |= lnwire.ChanUpdateDisabled
		}
		label = fmt.Sprintf("CU chan%d/%d ts=%d(%s) fee=%d/%d", c.idx, d, ts, tsName, sp.baseFee, sp.feeRate)
		if r.Chance(1, s.cfg.VariantDen) {
			switch r.Draw(9) {
			case 0:
				sp.signer = c.n[1-d].priv
				label += " signed by the OTHER direction's node"
			case 1:
				sp.signer = u.stranger.priv
				label += " signed by stranger"
			case 2:
				sp.msgFlags = 0
				label += " no max-htlc flag (re-signed)"
			case 3:
				sp.minHtlc = sp.maxHtlc + 1
				label += " min>max (re-signed)"
			case 4:
				sp.maxHtlc = uint64(c.capacity)*1000 + 1 + uint64(r.Draw(1000))
				label += " max>capacity (re-signed)"
			case 5:
				sp.chainHash = *chaincfg.TestNet3Params.GenesisHash
				label += " other chain (re-signed)"
			case 6:
				sp.extra = tlvBlob(byte(r.Draw(200)))
				label += " extra tlv (re-signed)"
			case 7:
				o := u.chans[(c.idx+1)%len(u.chans)]
				sp.scid = o.scid
				label += fmt.Sprintf(" for scid of chan%d (signed by chan%d's node)", o.idx, c.idx)
			case 8:
				sp.signer = u.nodes[r.Draw(len(u.nodes))].priv
				label += " signed by a drawn universe node"
			}
			dirty = true
			r.Count("variant_cu")
		}
		w = sp.wire()
	case "na":
		cands := append([]*uNode{}, u.nodes...)
		cands = append(cands, u.stranger)
		n := cands[r.Draw(len(cands))]
		key := fmt.Sprintf("na/%d", n.idx)
		var stored uint32
		if pn := s.proj.nodes[n.pub]; pn != nil {
			stored = pn.ts
		}
		ts, tsName := s.pickTs(key, stored)
		sp := naSpec{node: n, ts: ts, alias: fmt.Sprintf("n%d-%d", n.idx, r.Draw(5)),
			color: color.RGBA{R: byte(r.Draw(256)), G: 7, B: byte(n.idx)}, port: 9000 + r.Draw(3),
			feat: lnwire.NewRawFeatureVector(), signer: n.priv}
		label = fmt.Sprintf("NA node%d(%s) ts=%d(%s) alias=%s", n.idx, short(n.pub[:]), ts, tsName, sp.alias)
		if r.Chance(1, s.cfg.VariantDen) {
			switch r.Draw(4) {
			case 0:
				sp.signer = u.stranger.priv
				if n == u.stranger {
					sp.signer = u.nodes[0].priv
				}
				label += " signed by another key"
			case 1:
				sp.extra = tlvBlob(byte(r.Draw(200)))
				label += " extra tlv (re-signed)"
			case 2:
				sp.feat = lnwire.NewRawFeatureVector(lnwire.FeatureBit(1 + 2*r.Draw(7)))
				label += " odd feature bit (re-signed)"
			case 3:
				sp.node = s.w.self
				sp.signer = n.priv
				label += " claims to be OUR node (signed by " + short(n.pub[:]) + ")"
			}
			dirty = true
			r.Count("variant_na")
		}
		w = sp.wire()
	}

	// wire-level corruption of the signed message (never re-signed)
	if r.Chance(1, s.cfg.CorruptDen) {
		w = append([]byte(nil), w...)
		dirty = true
		s.corrupt++
		r.Count("fault_wire_corruption")
		switch r.Draw(5) {
		case 0, 1:
			pos := 2 + r.Draw(len(w)-2)
			bit := byte(1) << uint(r.Draw(8))
			w[pos] ^= bit
			label += fmt.Sprintf(" +flip byte %d bit %#x", pos, bit)
		case 2:
			// signature taken from another delivered message of the same type
			var donors []*msgInfo
			for _, mi := range s.order {
				if mi.kind == int(w[0])<<8|int(w[1]) && string(mi.wire) != string(w) {
					donors = append(donors, mi)
				}
			}
			if len(donors) > 0 {
				d := donors[r.Draw(len(donors))]
				copy(w[2:2+64], d.wire[2:2+64])
				label += " +signature of [" + d.label + "]"
			} else {
				w[2+10] ^= 0x40
				label += " +signature damaged"
			}
		case 3:
			// replace a stated key by another universe key
			switch int(w[0])<<8 | int(w[1]) {
			case typeChanAnn:
				if m, ok := parseCA(w); ok {
					k := r.Draw(4)
					off := len(w) - len(m.signed) + 2 + len(m.features) + 32 + 8 + 33*k
					n := u.nodes[r.Draw(len(u.nodes))]
					copy(w[off:off+33], n.pub[:])
					label += fmt.Sprintf(" +key %d replaced by %s", k, short(n.pub[:]))
				}
			case typeNodeAnn:
				if m, ok := parseNA(w); ok {
					n := u.nodes[r.Draw(len(u.nodes))]
					i := indexOf(w, m.nodeID)
					if i >= 0 {
						copy(w[i:i+33], n.pub[:])
						label += " +node id replaced by " + short(n.pub[:])
					}
				}
			case typeChanUpdate:
				// scid of another channel, signature kept
				o := u.chans[r.Draw(len(u.chans))]
				var b [8]byte
				v := o.scid.ToUint64()
				for i := 0; i < 8; i++ {
					b[i] = byte(v >> uint(56-8*i))
				}
				copy(w[2+64+32:], b[:])
				label += fmt.Sprintf(" +scid replaced by chan%d's", o.idx)
			}
		case 4:
			// swap two signatures of a channel announcement / append bytes
			if int(w[0])<<8|int(w[1]) == typeChanAnn {
				a, b := r.Draw(4), r.Draw(4)
				if a == b {
					b = (a + 1) % 4
				}
				var tmp [64]byte
				copy(tmp[:], w[2+64*a:])
				copy(w[2+64*a:2+64*a+64], w[2+64*b:2+64*b+64])
				copy(w[2+64*b:2+64*b+64], tmp[:])
				label += fmt.Sprintf(" +signatures %d and %d swapped", a, b)
			} else {
				w = append(w, tlvBlob(byte(r.Draw(200)))...)
				label += " +tlv appended after signing"
			}
		}
	}
	return w, label
}

func indexOf(hay, needle []byte) int {
	return strings.Index(string(hay), string(needle))
}

var traceToStderr = os.Getenv("GOSSIPSIM_TRACE") != ""
var traceDir = os.Getenv("GOSSIPSIM_TRACE_DIR")
var traceFile *os.File
var traceEmit = os.Getenv("GOSSIPSIM_TRACE_EMIT") != ""

// logf appends to the (hashed) event trace; with GOSSIPSIM_TRACE set the line
// is also printed immediately (debugging aid; output is not part of any result).
func logf(r *simcore.Run, format string, args ...interface{}) {
	r.Logf(format, args...)
	if traceToStderr {
		fmt.Fprintf(os.Stderr, "  | "+format+"\n", args...)
	}
	if traceFile != nil {
		fmt.Fprintf(traceFile, format+"\n", args...)
	}
}
