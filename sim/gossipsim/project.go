package gossipsim

import (
	"bytes"
	"fmt"
	"sort"

	"github.com/btcsuite/btcd/wire/v2"
	graphdb "github.com/lightningnetwork/lnd/graph/db"
	"github.com/lightningnetwork/lnd/graph/db/models"
	"github.com/lightningnetwork/lnd/lnwire"
	"github.com/lightningnetwork/lnd/netann"
)

// The graph projection: what a reader of the graph (path finding, gossip
// sync) sees. Every entry is kept as the wire message the node itself
// reconstructs from its database, so that "the graph holds X" can be compared
// byte for byte with "somebody delivered X".

type pPolicy struct {
	wire []byte
	ts   uint32
	err  string
	// the routing-relevant fields as stored (compared with the in-memory
	// graph cache, which is what path finding actually reads)
	cltv                uint16
	min, max, base, ppm uint64
	disabled            bool
}

type pChan struct {
	scid uint64
	wire []byte // reconstructed channel_announcement
	err  string
	// noProof: the edge has no AuthProof (a channel of the node itself that
	// has not been announced); wire then carries four all-zero signatures.
	noProof  bool
	node     [2][33]byte
	capacity int64
	outpoint wire.OutPoint
	pol      [2]*pPolicy
}

type pNode struct {
	key  [33]byte
	wire []byte // reconstructed node_announcement; nil for a shell node
	ts   uint32
	err  string
}

type projection struct {
	chans map[uint64]*pChan
	nodes map[[33]byte]*pNode
}

func projPolicy(info *models.ChannelEdgeInfo, p *models.ChannelEdgePolicy) *pPolicy {
	if p == nil {
		return nil
	}
	out := &pPolicy{ts: uint32(p.LastUpdate.Unix()), cltv: p.TimeLockDelta,
		min: uint64(p.MinHTLC), max: uint64(p.MaxHTLC), base: uint64(p.FeeBaseMSat),
		ppm: uint64(p.FeeProportionalMillionths), disabled: p.IsDisabled()}
	upd, err := netann.ChannelUpdateFromEdge(info, p)
	if err != nil {
		out.err = err.Error()
		return out
	}
	out.wire = encode(upd)
	return out
}

// readProjection reads the whole graph through its exported iteration API.
func (w *World) readProjection() *projection {
	pr := &projection{chans: map[uint64]*pChan{}, nodes: map[[33]byte]*pNode{}}
	err := w.cg.ForEachChannel(w.ctx, lnwire.GossipVersion1, func(info *models.ChannelEdgeInfo,
		p1, p2 *models.ChannelEdgePolicy) error {

		c := projChan(info, p1, p2)
		pr.chans[c.scid] = c
		return nil
	}, func() {
		pr.chans = map[uint64]*pChan{}
	})
	w.r.Must(err, "ForEachChannel")

	err = w.vg.ForEachNode(w.ctx, func(n *models.Node) error {
		pn := &pNode{key: n.PubKeyBytes}
		if n.HaveAnnouncement() {
			pn.ts = uint32(n.LastUpdate.Unix())
			ann, err := n.NodeAnnouncement(true)
			if err != nil {
				pn.err = err.Error()
			} else {
				pn.wire = encode(ann)
			}
		}
		pr.nodes[pn.key] = pn
		return nil
	}, func() {
		pr.nodes = map[[33]byte]*pNode{}
	})
	w.r.Must(err, "ForEachNode")
	return pr
}

// projChan is the projection of one stored channel.
func projChan(info *models.ChannelEdgeInfo, p1, p2 *models.ChannelEdgePolicy) *pChan {
	c := &pChan{
		scid: info.ChannelID, capacity: int64(info.Capacity), outpoint: info.ChannelPoint,
		node: [2][33]byte{info.NodeKey1Bytes, info.NodeKey2Bytes},
	}
	if info.AuthProof == nil {
		c.noProof = true
		c.wire, c.err = prooflessWire(info)
	} else if ann, err := info.ToChannelAnnouncement(); err != nil {
		c.err = err.Error()
	} else {
		c.wire = encode(ann)
	}
	c.pol[0] = projPolicy(info, p1)
	c.pol[1] = projPolicy(info, p2)
	return c
}

// prooflessWire is the channel_announcement of an edge without AuthProof: all
// announced fields as stored, the four signature slots zero.
func prooflessWire(info *models.ChannelEdgeInfo) ([]byte, string) {
	if info.Version != lnwire.GossipVersion1 {
		return nil, fmt.Sprintf("unsupported channel version: %d", info.Version)
	}
	btc1, err := info.BitcoinKey1Bytes.UnwrapOrErr(fmt.Errorf("bitcoin key 1 missing"))
	if err != nil {
		return nil, err.Error()
	}
	btc2, err := info.BitcoinKey2Bytes.UnwrapOrErr(fmt.Errorf("bitcoin key 2 missing"))
	if err != nil {
		return nil, err.Error()
	}
	feat := lnwire.NewRawFeatureVector()
	if info.Features != nil && info.Features.RawFeatureVector != nil {
		feat = info.Features.RawFeatureVector
	}
	return encode(&lnwire.ChannelAnnouncement1{
		ShortChannelID:  lnwire.NewShortChanIDFromInt(info.ChannelID),
		NodeID1:         info.NodeKey1Bytes,
		NodeID2:         info.NodeKey2Bytes,
		ChainHash:       info.ChainHash,
		BitcoinKey1:     btc1,
		BitcoinKey2:     btc2,
		Features:        feat,
		ExtraOpaqueData: info.ExtraOpaqueData,
	}), ""
}

func (p *projection) scids() []uint64 {
	var s []uint64
	for k := range p.chans {
		s = append(s, k)
	}
	sort.Slice(s, func(i, j int) bool { return s[i] < s[j] })
	return s
}

func (p *projection) nodeKeys() [][33]byte {
	var s [][33]byte
	for k := range p.nodes {
		s = append(s, k)
	}
	sort.Slice(s, func(i, j int) bool { return bytes.Compare(s[i][:], s[j][:]) < 0 })
	return s
}

// hasEndpoint reports whether key is a node of some channel in p.
func (p *projection) hasEndpoint(key [33]byte) bool {
	for _, c := range p.chans {
		if c.node[0] == key || c.node[1] == key {
			return true
		}
	}
	return false
}

func polEqual(a, b *pPolicy) bool {
	if a == nil || b == nil {
		return a == b
	}
	return a.ts == b.ts && a.err == b.err && bytes.Equal(a.wire, b.wire)
}

func scidStr(s uint64) string {
	return fmt.Sprintf("%d:%d:%d", s>>40, (s>>16)&0xffffff, s&0xffff)
}

// summary is a short deterministic digest of the projection for the trace and
// the distinct-states measure.
func (p *projection) summary() string {
	var b bytes.Buffer
	for _, s := range p.scids() {
		c := p.chans[s]
		fmt.Fprintf(&b, "[%s", scidStr(s))
		if c.noProof {
			b.WriteString(" unannounced")
		}
		for d := 0; d < 2; d++ {
			if c.pol[d] == nil {
				b.WriteString(" -")
			} else {
				fmt.Fprintf(&b, " %d", c.pol[d].ts)
			}
		}
		b.WriteString("]")
	}
	full := 0
	for _, n := range p.nodes {
		if n.wire != nil {
			full++
		}
	}
	fmt.Fprintf(&b, " nodes=%d/%d", full, len(p.nodes))
	return b.String()
}

// checkCache compares the in-memory graph cache (what path finding reads
// through ForEachNodeDirectedChannel) with the database projection: same
// channels, same capacity, same routing policy fields in both directions.
func (w *World) checkCache(pr *projection, what string, fail func(code, format string, args ...interface{})) {
	r := w.r
	if w.cg.GraphCacheStatus() != graphdb.GraphCacheStatusLoaded {
		r.Harness("graph cache not loaded")
	}
	keys := map[[33]byte]bool{}
	for k := range pr.nodes {
		keys[k] = true
	}
	for _, c := range pr.chans {
		keys[c.node[0]] = true
		keys[c.node[1]] = true
	}
	var sorted [][33]byte
	for k := range keys {
		sorted = append(sorted, k)
	}
	sort.Slice(sorted, func(i, j int) bool { return bytes.Compare(sorted[i][:], sorted[j][:]) < 0 })
	seen := 0
	for _, k := range sorted {
		err := w.cg.ForEachNodeDirectedChannel(w.ctx, k, func(dc *graphdb.DirectedChannel) error {
			seen++
			c := pr.chans[dc.ChannelID]
			id := scidStr(dc.ChannelID)
			if c == nil {
				fail("cache-mismatch", "%s: path-finding cache holds channel %s (at node %s) that the graph database does not", what, id, short(k[:]))
			}
			i := 0
			if !dc.IsNode1 {
				i = 1
			}
			if c.node[i] != k || c.node[1-i] != [33]byte(dc.OtherNode) {
				fail("cache-mismatch", "%s: cache has channel %s under other node keys than the database", what, id)
			}
			if int64(dc.Capacity) != c.capacity {
				fail("cache-mismatch", "%s: cache capacity of %s is %d, database %d", what, id, dc.Capacity, c.capacity)
			}
			if dc.OutPolicySet != (c.pol[i] != nil) {
				fail("cache-mismatch", "%s: cache says outgoing policy of %s/%d set=%v, database has=%v", what, id, i, dc.OutPolicySet, c.pol[i] != nil)
			}
			in := c.pol[1-i]
			if (dc.InPolicy != nil) != (in != nil) {
				fail("cache-mismatch", "%s: cache incoming policy of %s/%d present=%v, database=%v", what, id, 1-i, dc.InPolicy != nil, in != nil)
			}
			if in != nil {
				p := dc.InPolicy
				if p.TimeLockDelta != in.cltv || uint64(p.MinHTLC) != in.min || uint64(p.MaxHTLC) != in.max ||
					uint64(p.FeeBaseMSat) != in.base || uint64(p.FeeProportionalMillionths) != in.ppm ||
					p.IsDisabled != in.disabled {

					fail("cache-mismatch", "%s: cached policy %s/%d (cltv=%d min=%d max=%d fee=%d/%d disabled=%v) differs from database (cltv=%d min=%d max=%d fee=%d/%d disabled=%v)",
						what, id, 1-i, p.TimeLockDelta, p.MinHTLC, p.MaxHTLC, p.FeeBaseMSat, p.FeeProportionalMillionths, p.IsDisabled,
						in.cltv, in.min, in.max, in.base, in.ppm, in.disabled)
				}
			}
			return nil
		}, func() {})
		r.Must(err, "ForEachNodeDirectedChannel")
	}
	want := 0
	for _, c := range pr.chans {
		if c.node[0] == c.node[1] {
			// both ends are the same node: one entry in that node's map
			want++
			r.Count("probe_selfloop_channel_in_graph")
		} else {
			want += 2
		}
	}
	if seen != want {
		fail("cache-mismatch", "%s: path-finding cache holds %d directed channel entries, the database has %d channels (%d expected)", what, seen, len(pr.chans), want)
	}
}

// abstract is the projection reduced to its shape (for the distinct-states
// measure): per channel which directions have a policy and whether it is
// disabled, and how many nodes have / lack an announcement.
func (p *projection) abstract() string {
	var b bytes.Buffer
	for _, s := range p.scids() {
		c := p.chans[s]
		b.WriteByte('[')
		for d := 0; d < 2; d++ {
			switch {
			case c.pol[d] == nil:
				b.WriteByte('-')
			case c.pol[d].disabled:
				b.WriteByte('d')
			default:
				b.WriteByte('e')
			}
		}
		if c.node[0] == c.node[1] {
			b.WriteByte('!')
		}
		if c.noProof {
			b.WriteByte('u')
		}
		b.WriteByte(']')
	}
	full := 0
	for _, n := range p.nodes {
		if n.wire != nil {
			full++
		}
	}
	fmt.Fprintf(&b, " n=%d/%d", full, len(p.nodes))
	return b.String()
}
