package gossipsim

import (
	"bytes"
	"fmt"
	"image/color"
	"net"

	"github.com/btcsuite/btcd/btcec/v2"
	"github.com/btcsuite/btcd/btcec/v2/ecdsa"
	"github.com/btcsuite/btcd/chainhash/v2"
	"github.com/btcsuite/btcd/wire/v2"
	"github.com/lightningnetwork/lnd/lnwire"
)

// uNode is one node identity of the universe.
type uNode struct {
	idx  int
	priv *btcec.PrivateKey
	pub  [33]byte
}

func newNode(idx int) *uNode {
	p, err := btcec.NewPrivateKey()
	if err != nil {
		panic(err)
	}
	n := &uNode{idx: idx, priv: p}
	copy(n.pub[:], p.PubKey().SerializeCompressed())
	return n
}

// Funding situations on the simulated chain.
const (
	fundOK          = iota // output exists, unspent, pays to 2-of-2(bitcoin keys)
	fundFuture             // like fundOK, but mined 1-3 blocks after the start
	fundWrongScript        // output pays to a 2-of-2 with a different key
	fundNotMultisig        // output pays to a key hash
	fundMissingTx          // tx index beyond the block
	fundMissingOut         // output index beyond the transaction
	fundSpentEarly         // output existed but was spent before the start
	numFundKinds
)

var fundNames = []string{"ok", "future", "wrong-script", "not-multisig", "missing-tx", "missing-out", "spent-early"}

// uChan is one channel of the universe (what its owners would announce).
type uChan struct {
	idx      int
	n        [2]*uNode // n[0].pub < n[1].pub
	btc      [2]*btcec.PrivateKey
	btcPub   [2][33]byte
	scid     lnwire.ShortChannelID
	kind     int
	capacity int64
	outpoint wire.OutPoint // only meaningful when an output exists
	// own-channels arm: the node under test is endpoint n[selfIdx]
	own      bool
	selfIdx  int
	announce bool // the funding manager will ask for the channel to be announced
}

// Universe is everything the simulated network knows.
type Universe struct {
	chainHash chainhash.Hash
	nodes     []*uNode
	chans     []*uChan
	stranger  *uNode // a key that owns no channel
}

// sign64 signs digest and returns r||s.
func sign64(priv *btcec.PrivateKey, digest []byte) []byte {
	sig := ecdsa.Sign(priv, digest)
	r, s := sig.R(), sig.S()
	rb, sb := r.Bytes(), s.Bytes()
	return append(rb[:], sb[:]...)
}

func encode(m lnwire.Message) []byte {
	var b bytes.Buffer
	if _, err := lnwire.WriteMessage(&b, m, 0); err != nil {
		panic(fmt.Sprintf("gossipsim: encode %T: %v", m, err))
	}
	return b.Bytes()
}

// signCA fills in the four signatures of an encoded channel_announcement.
func signCA(w []byte, keys [4]*btcec.PrivateKey) {
	d := dsha(w[2+256:])
	for i, k := range keys {
		copy(w[2+64*i:], sign64(k, d))
	}
}

// signTail fills in the leading signature of an encoded channel_update or
// node_announcement.
func signTail(w []byte, key *btcec.PrivateKey) {
	copy(w[2:], sign64(key, dsha(w[2+64:])))
}

// caSpec describes a channel announcement to build.
type caSpec struct {
	c         *uChan
	scid      lnwire.ShortChannelID
	nodeKeys  [2]*uNode            // stated node ids
	btcKeys   [2]*btcec.PrivateKey // stated bitcoin keys
	signers   [4]*btcec.PrivateKey // who actually signs node1,node2,btc1,btc2
	chainHash chainhash.Hash
	features  *lnwire.RawFeatureVector
	extra     []byte
}

func (u *Universe) baseCA(c *uChan) caSpec {
	return caSpec{
		c: c, scid: c.scid, nodeKeys: c.n, btcKeys: c.btc,
		signers:   [4]*btcec.PrivateKey{c.n[0].priv, c.n[1].priv, c.btc[0], c.btc[1]},
		chainHash: u.chainHash,
		features:  lnwire.NewRawFeatureVector(),
	}
}

// msg is the announcement without signatures (what the funding manager hands
// to the gossiper for a channel of the node itself).
func (s caSpec) msg() *lnwire.ChannelAnnouncement1 {
	m := &lnwire.ChannelAnnouncement1{
		Features:        s.features,
		ChainHash:       s.chainHash,
		ShortChannelID:  s.scid,
		NodeID1:         s.nodeKeys[0].pub,
		NodeID2:         s.nodeKeys[1].pub,
		ExtraOpaqueData: s.extra,
	}
	copy(m.BitcoinKey1[:], s.btcKeys[0].PubKey().SerializeCompressed())
	copy(m.BitcoinKey2[:], s.btcKeys[1].PubKey().SerializeCompressed())
	return m
}

func (s caSpec) wire() []byte {
	w := encode(s.msg())
	signCA(w, s.signers)
	return w
}

// cuSpec describes a channel update to build.
type cuSpec struct {
	scid      lnwire.ShortChannelID
	chainHash chainhash.Hash
	ts        uint32
	msgFlags  lnwire.ChanUpdateMsgFlags
	chanFlags lnwire.ChanUpdateChanFlags
	cltv      uint16
	minHtlc   uint64
	maxHtlc   uint64
	baseFee   uint32
	feeRate   uint32
	extra     []byte
	signer    *btcec.PrivateKey
}

func (s cuSpec) wire() []byte {
	m := &lnwire.ChannelUpdate1{
		ChainHash:       s.chainHash,
		ShortChannelID:  s.scid,
		Timestamp:       s.ts,
		MessageFlags:    s.msgFlags,
		ChannelFlags:    s.chanFlags,
		TimeLockDelta:   s.cltv,
		HtlcMinimumMsat: lnwire.MilliSatoshi(s.minHtlc),
		HtlcMaximumMsat: lnwire.MilliSatoshi(s.maxHtlc),
		BaseFee:         s.baseFee,
		FeeRate:         s.feeRate,
		ExtraOpaqueData: s.extra,
	}
	w := encode(m)
	signTail(w, s.signer)
	return w
}

// naSpec describes a node announcement to build.
type naSpec struct {
	node   *uNode
	ts     uint32
	alias  string
	color  color.RGBA
	port   int
	feat   *lnwire.RawFeatureVector
	extra  []byte
	signer *btcec.PrivateKey
}

func (s naSpec) wire() []byte {
	alias, err := lnwire.NewNodeAlias(s.alias)
	if err != nil {
		panic(err)
	}
	m := &lnwire.NodeAnnouncement1{
		Features:        s.feat,
		Timestamp:       s.ts,
		NodeID:          s.node.pub,
		RGBColor:        s.color,
		Alias:           alias,
		ExtraOpaqueData: s.extra,
	}
	if s.port > 0 {
		m.Addresses = []net.Addr{&net.TCPAddr{IP: net.IPv4(10, 0, 0, byte(1+s.node.idx)), Port: s.port}}
	}
	w := encode(m)
	signTail(w, s.signer)
	return w
}

// tlvBlob is a well-formed TLV stream with one odd (ignorable) record.
func tlvBlob(tag byte) []byte {
	return []byte{0xfd, 0xff, 0x01, 0x03, tag, tag ^ 0x5a, 0x01} // type 65281, len 3
}

// decode reads wire bytes the way the peer layer would before handing the
// message to the gossiper.
func decode(w []byte) (lnwire.Message, error) {
	return lnwire.ReadMessage(bytes.NewReader(w), 0)
}
