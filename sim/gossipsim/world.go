package gossipsim

import (
	"context"
	"database/sql"
	"errors"
	"fmt"
	"net"
	"os"
	"sync"
	"testing/synctest"
	"time"

	"github.com/btcsuite/btcd/btcec/v2"
	"github.com/btcsuite/btcd/btcec/v2/ecdsa"
	"github.com/btcsuite/btcd/chaincfg/v2"
	"github.com/btcsuite/btcd/chainhash/v2"
	"github.com/btcsuite/btcd/wire/v2"
	"github.com/lightningnetwork/lnd/channeldb"
	"github.com/lightningnetwork/lnd/chanstate"
	"github.com/lightningnetwork/lnd/discovery"
	"github.com/lightningnetwork/lnd/graph"
	graphdb "github.com/lightningnetwork/lnd/graph/db"
	"github.com/lightningnetwork/lnd/graph/db/models"
	"github.com/lightningnetwork/lnd/keychain"
	"github.com/lightningnetwork/lnd/lnpeer"
	"github.com/lightningnetwork/lnd/lnwire"
	"github.com/lightningnetwork/lnd/routing/route"
	"github.com/lightningnetwork/lnd/sqldb"
	"github.com/lightningnetwork/lnd/ticker"

	"verif/simcore"
)

const (
	// settleQuantum is the fake time the simulator lets pass before it
	// declares the node quiescent.
	settleQuantum = 500 * time.Millisecond
	// batchCommit is the graph store's batch-commit interval. lnd's daemon
	// default is 500ms; it must be zero here: the gossiper holds its
	// per-channel mutex across the (timer driven) batch commit, and a
	// goroutine blocked on a sync.Mutex is not "durably blocked" for
	// synctest, so the fake clock could never reach the timer while a second
	// message for the same channel is waiting for that mutex. A zero interval
	// is what graphdb.DefaultOptions() uses.
	batchCommit  = 0
	trickleDelay = 90 * time.Second // lnd default
	startHeight  = 100
)

// sqlTemplate is an empty, fully migrated sqlite graph database (bytes of
// the file), built on first use.
var sqlTemplate []byte

// emitted is one gossip message the node under test sent out.
type emitted struct {
	via  string
	wire []byte
}

// simPeer is a remote peer (lnpeer.Peer) owned by the simulator.
type simPeer struct {
	w        *World
	name     string
	priv     *btcec.PrivateKey
	pub      [33]byte
	quit     chan struct{}
	mu       sync.Mutex
	inbox    []lnwire.Message // non-gossip messages sent to this peer
	dropped  bool             // Disconnect was called on it
	hasSync  bool
	filterOn bool
	// own-channels arm: the remote endpoint of a channel of the node itself
	chanPeer bool
	online   bool
	node     *uNode
}

func (p *simPeer) send(msgs ...lnwire.Message) error {
	if p.chanPeer {
		p.w.mu.Lock()
		on := p.online
		p.w.mu.Unlock()
		if !on {
			return errors.New("peer is not connected")
		}
	}
	for _, m := range msgs {
		switch m.(type) {
		case *lnwire.ChannelAnnouncement1, *lnwire.ChannelUpdate1, *lnwire.NodeAnnouncement1:
			p.w.emit("peer:"+p.name, m)
		default:
			p.mu.Lock()
			p.inbox = append(p.inbox, m)
			p.mu.Unlock()
			p.w.bump()
		}
	}
	return nil
}

func (p *simPeer) SendMessage(_ bool, msgs ...lnwire.Message) error     { return p.send(msgs...) }
func (p *simPeer) SendMessageLazy(_ bool, msgs ...lnwire.Message) error { return p.send(msgs...) }
func (p *simPeer) AddNewChannel(*lnpeer.NewChannel, <-chan struct{}) error {
	return errors.New("not simulated")
}
func (p *simPeer) AddPendingChannel(lnwire.ChannelID, <-chan struct{}) error {
	return errors.New("not simulated")
}
func (p *simPeer) RemovePendingChannel(lnwire.ChannelID) error { return nil }
func (p *simPeer) WipeChannel(*wire.OutPoint)                  {}
func (p *simPeer) PubKey() [33]byte                            { return p.pub }
func (p *simPeer) IdentityKey() *btcec.PublicKey               { return p.priv.PubKey() }
func (p *simPeer) Address() net.Addr                           { return &net.TCPAddr{IP: net.IPv4(10, 9, 9, 9), Port: 9735} }
func (p *simPeer) QuitSignal() <-chan struct{}                 { return p.quit }
func (p *simPeer) LocalFeatures() *lnwire.FeatureVector        { return lnwire.EmptyFeatureVector() }
func (p *simPeer) RemoteFeatures() *lnwire.FeatureVector       { return lnwire.EmptyFeatureVector() }
func (p *simPeer) Disconnect(error) {
	p.mu.Lock()
	p.dropped = true
	p.mu.Unlock()
	p.w.bump()
}
func (p *simPeer) String() string { return p.name }

type msgSigner struct{ priv *btcec.PrivateKey }

func (s *msgSigner) SignMessage(_ keychain.KeyLocator, msg []byte, doubleHash bool) (*ecdsa.Signature, error) {
	var d []byte
	if doubleHash {
		d = chainhash.DoubleHashB(msg)
	} else {
		d = chainhash.HashB(msg)
	}
	return ecdsa.Sign(s.priv, d), nil
}

type noChannels struct{}

func (noChannels) FetchOpenChannels(*btcec.PublicKey) ([]*chanstate.OpenChannel, error) {
	return nil, nil
}

// delivery is the outcome slot of one ProcessRemoteAnnouncement call.
type delivery struct {
	mu   sync.Mutex
	done bool
	err  error
}

// World is the node under test plus everything around it.
type World struct {
	r     *simcore.Run
	chain *SimChain
	kv    *simcore.SimKV
	aux   *simcore.SimKV
	// probe: see NewWorld (bbolt worlds only)
	probe *graphdb.KVStore
	sql   *sqldb.SqliteStore

	self     *uNode
	selfWire []byte
	cg       *graphdb.ChannelGraph
	vg       *graphdb.VersionedGraph
	builder  *graph.Builder
	gsp      *discovery.AuthenticatedGossiper
	peers    []*simPeer

	ctx    context.Context
	cancel context.CancelFunc

	mu       sync.Mutex
	out      []emitted
	activity int
	txs      int
	toFail   int

	// own-channels arm
	ownChans  []*uChan
	chanPeers []*simPeer                        // remote endpoints of the node's own channels
	nodePeers []*simPeer                        // peers whose identity is a universe node's key (created on demand)
	waiters   map[[33]byte][]chan<- lnpeer.Peer // NotifyWhenOnline requests not served yet
	offline   map[[33]byte][]chan struct{}      // NotifyWhenOffline channels not closed yet
}

// chanPeerByKey returns the channel peer with that node key (nil if none).
// nodePeer returns (creating it on first use) the peer whose identity key is
// universe node n's key: no gossip syncer, like any peer that does not speak
// gossip queries.
func (w *World) nodePeer(n *uNode) *simPeer {
	for _, p := range w.nodePeers {
		if p.pub == n.pub {
			return p
		}
	}
	p := &simPeer{w: w, name: fmt.Sprintf("N%d", n.idx), priv: n.priv, pub: n.pub, quit: make(chan struct{})}
	w.nodePeers = append(w.nodePeers, p)
	return p
}

func (w *World) chanPeerByKey(pub [33]byte) *simPeer {
	for _, p := range w.chanPeers {
		if p.pub == pub {
			return p
		}
	}
	return nil
}

// notifyWhenOnline is the server's NotifyWhenOnline: the peer is handed over
// at once if it is connected, otherwise when it connects.
func (w *World) notifyWhenOnline(pub [33]byte, ch chan<- lnpeer.Peer) {
	w.mu.Lock()
	defer w.mu.Unlock()
	w.activity++
	if p := w.chanPeerByKey(pub); p != nil && p.online {
		select {
		case ch <- p:
		default:
		}
		return
	}
	w.waiters[pub] = append(w.waiters[pub], ch)
}

// notifyWhenOffline is the server's NotifyWhenOffline: a channel that is
// closed when the peer disconnects (already closed if it is not connected).
func (w *World) notifyWhenOffline(pub [33]byte) <-chan struct{} {
	w.mu.Lock()
	defer w.mu.Unlock()
	w.activity++
	c := make(chan struct{})
	if p := w.chanPeerByKey(pub); p == nil || !p.online {
		close(c)
		return c
	}
	w.offline[pub] = append(w.offline[pub], c)
	return c
}

// setOnline connects or disconnects a channel peer.
func (w *World) setOnline(p *simPeer, on bool) {
	w.mu.Lock()
	defer w.mu.Unlock()
	w.activity++
	p.online = on
	if on {
		for _, ch := range w.waiters[p.pub] {
			select {
			case ch <- p:
			default:
			}
		}
		delete(w.waiters, p.pub)
		return
	}
	for _, c := range w.offline[p.pub] {
		close(c)
	}
	delete(w.offline, p.pub)
}

// findChannel is the gossiper's FindChannel hook (the channel database): the
// node's own channels with that peer.
func (w *World) findChannel(node *btcec.PublicKey, id lnwire.ChannelID) (*chanstate.OpenChannel, error) {
	var pub [33]byte
	copy(pub[:], node.SerializeCompressed())
	for _, c := range w.ownChans {
		if c.n[1-c.selfIdx].pub == pub && lnwire.NewChanIDFromOutPoint(c.outpoint) == id {
			return &chanstate.OpenChannel{}, nil
		}
	}
	return nil, errors.New("no such channel")
}

// failWrites makes the next n write transactions of the graph database fail.
func (w *World) failWrites(n int) {
	w.mu.Lock()
	w.toFail = n
	w.mu.Unlock()
	w.kv.FiredFail = 0
}

// stopFailing disarms write failures and returns how many fired.
func (w *World) stopFailing() int {
	w.mu.Lock()
	w.toFail = 0
	w.mu.Unlock()
	w.kv.Disarm()
	n := w.kv.FiredFail
	w.kv.FiredFail = 0
	return n
}

func (w *World) bump() {
	w.mu.Lock()
	w.activity++
	w.mu.Unlock()
}

func (w *World) emit(via string, m lnwire.Message) {
	b := encode(m)
	w.mu.Lock()
	w.out = append(w.out, emitted{via: via, wire: b})
	w.activity++
	w.mu.Unlock()
}

// drain returns and clears everything emitted so far.
func (w *World) drain() []emitted {
	w.mu.Lock()
	defer w.mu.Unlock()
	o := w.out
	w.out = nil
	return o
}

func (w *World) activityCount() int {
	w.mu.Lock()
	a := w.activity + w.txs
	w.mu.Unlock()
	return a + w.chain.Calls()
}

// settle runs the bubble to quiescence: every goroutine durably blocked and
// no database, chain or network activity for one more batch interval of fake
// time.
func (w *World) settle() {
	for i := 0; ; i++ {
		synctest.Wait()
		a := w.activityCount()
		time.Sleep(settleQuantum)
		synctest.Wait()
		if w.activityCount() == a {
			return
		}
		if i > 200 {
			w.r.Harness("no quiescence after 200 batch intervals")
		}
	}
}

// NewWorld builds chain, graph database, graph builder and gossiper. Must be
// called inside the synctest bubble.
// pruneInterval is the zombie-prune ticker interval of the aging arm;
// pruneHorizon the age beyond which a policy counts as a zombie edge.
const (
	pruneInterval = 15 * 24 * time.Hour
	pruneHorizon  = graph.DefaultChannelPruneExpiry
)

// agingWorld is set by the run before NewWorld (one run per process at a time).
var agingWorld bool

// strictZombieWorld: see Config.StrictZombie.
var strictZombieWorld bool

func pruneIntervalFor(aging bool) time.Duration {
	if aging {
		return pruneInterval
	}
	return 200 * 365 * 24 * time.Hour
}

func NewWorld(r *simcore.Run, chain *SimChain, self *uNode, npeers int, syncPeers int, sqlBackend bool, banThreshold uint64, ownChans []*uChan) *World {
	w := &World{r: r, chain: chain, self: self, ownChans: ownChans,
		waiters: map[[33]byte][]chan<- lnpeer.Peer{}, offline: map[[33]byte][]chan struct{}{}}
	w.ctx, w.cancel = context.WithCancel(context.Background())

	var err error
	w.kv, err = simcore.OpenSimKV(r.SubDir("graph"), "graph.db")
	r.Must(err, "open graph db")
	w.aux, err = simcore.OpenSimKV(r.SubDir("aux"), "aux.db")
	r.Must(err, "open aux db")
	count := func(bool) {
		w.mu.Lock()
		w.txs++
		w.mu.Unlock()
	}
	w.kv.OnTx = func(write bool) {
		count(write)
		if !write {
			return
		}
		w.mu.Lock()
		arm := w.toFail > 0
		if arm {
			w.toFail--
		}
		w.mu.Unlock()
		if arm {
			w.kv.FailWrite(1)
		}
	}
	w.aux.OnTx = count

	// Cache sizes are shrunk from the daemon defaults (their zeroing dominates
	// the cost of a run); with at most four channels they never evict.
	opts := []graphdb.StoreOptionModifier{graphdb.WithBatchCommitInterval(batchCommit),
		graphdb.WithRejectCacheSize(256), graphdb.WithChannelCacheSize(256)}
	var store graphdb.Store
	if sqlBackend {
		// Applying all schema migrations costs ~0.4s; do it once per
		// process and start every run from a copy of the empty schema.
		if sqlTemplate == nil {
			tp := r.SubDir("sqltpl") + "/t.sqlite"
			tdb, err := sqldb.NewSqliteStore(&sqldb.SqliteConfig{}, tp)
			r.Must(err, "open sqlite template")
			r.Must(tdb.ApplyAllMigrations(w.ctx, sqldb.GetMigrations()), "sqlite migrations")
			r.Must(tdb.DB.Close(), "close sqlite template")
			sqlTemplate, err = os.ReadFile(tp)
			r.Must(err, "read sqlite template")
		}
		path := r.SubDir("sql") + "/graph.sqlite"
		r.Must(os.WriteFile(path, sqlTemplate, 0o600), "copy sqlite template")
		w.sql, err = sqldb.NewSqliteStore(&sqldb.SqliteConfig{SkipMigrations: true}, path)
		r.Must(err, "open sqlite")
		base := w.sql.BaseDB
		exec := sqldb.NewTransactionExecutor(base, func(tx *sql.Tx) graphdb.SQLQueries {
			return base.WithTx(tx)
		})
		store, err = graphdb.NewSQLStore(&graphdb.SQLStoreConfig{
			ChainHash: *chaincfg.MainNetParams.GenesisHash,
			QueryCfg:  sqldb.DefaultSQLiteConfig(),
		}, exec, opts...)
	} else {
		store, err = graphdb.NewKVStore(w.kv, opts...)
		if err == nil {
			// A second store object on the same file, with locks and caches
			// of its own: the simulator's window on what is durably stored,
			// usable from inside the node's write path (OnCommitted) without
			// touching the node's locks.
			w.probe, err = graphdb.NewKVStore(w.kv, graphdb.WithBatchCommitInterval(0),
				graphdb.WithRejectCacheSize(1), graphdb.WithChannelCacheSize(1))
		}
	}
	r.Must(err, "graph store")
	w.cg, err = graphdb.NewChannelGraph(store, graphdb.WithSyncGraphCachePopulation(),
		graphdb.WithPreAllocCacheNumNodes(32))
	r.Must(err, "channel graph")
	r.Must(w.cg.Start(), "graph start")
	w.vg = graphdb.NewVersionedGraph(w.cg, lnwire.GossipVersion1)

	params := &chaincfg.MainNetParams

	// Our own node: a signed announcement, stored as the source node.
	now := uint32(time.Now().Unix())
	w.selfWire = naSpec{node: self, ts: now, alias: "self", port: 9735,
		feat: lnwire.NewRawFeatureVector(), signer: self.priv}.wire()
	sm, err := decode(w.selfWire)
	r.Must(err, "decode self ann")
	selfAnn := sm.(*lnwire.NodeAnnouncement1)
	r.Must(w.cg.SetSourceNode(w.ctx, models.NodeFromWireAnnouncement(selfAnn)), "set source node")

	w.builder, err = graph.NewBuilder(&graph.Config{
		SelfNode:            route.Vertex(self.pub),
		Graph:               w.cg,
		Chain:               chain,
		ChainView:           chain.View(),
		Notifier:            chain.Notifier(),
		ChannelPruneExpiry:  graph.DefaultChannelPruneExpiry,
		GraphPruneInterval:  pruneIntervalFor(agingWorld), // out of reach of the fake clock unless the run is in the aging arm
		FirstTimePruneDelay: graph.DefaultFirstTimePruneDelay,
		AssumeChannelValid:  false,
		StrictZombiePruning: strictZombieWorld,
		IsAlias:             func(lnwire.ShortChannelID) bool { return false },
	})
	r.Must(err, "new builder")
	r.Must(w.builder.Start(), "builder start")

	wps, err := channeldb.NewWaitingProofStore(w.aux)
	r.Must(err, "waiting proof store")
	ms, err := discovery.NewMessageStore(w.aux)
	r.Must(err, "message store")

	w.gsp = discovery.New(discovery.Config{
		ChainParams: params,
		Graph:       w.builder,
		ChainIO:     chain,
		ChanSeries:  discovery.NewChanSeries(w.vg),
		Notifier:    chain.Notifier(),
		Broadcast: func(_ map[route.Vertex]struct{}, msgs ...lnwire.Message) error {
			for _, m := range msgs {
				w.emit("broadcast", m)
			}
			return nil
		},
		NotifyWhenOnline:  w.notifyWhenOnline,
		NotifyWhenOffline: w.notifyWhenOffline,
		FetchSelfAnnouncement: func() lnwire.NodeAnnouncement1 {
			return *selfAnn
		},
		UpdateSelfAnnouncement: func() (lnwire.NodeAnnouncement1, error) {
			return *selfAnn, nil
		},
		ProofMatureDelta:      discovery.DefaultProofMatureDelta,
		TrickleDelay:          trickleDelay,
		RetransmitTicker:      ticker.New(30 * time.Minute),
		RebroadcastInterval:   24 * time.Hour,
		WaitingProofStore:     wps,
		MessageStore:          ms,
		AnnSigner:             &msgSigner{self.priv},
		ScidCloser:            discovery.NewScidCloserMan(w.cg, noChannels{}),
		NumActiveSyncers:      3,
		RotateTicker:          ticker.New(discovery.DefaultSyncerRotationInterval),
		HistoricalSyncTicker:  ticker.New(discovery.DefaultHistoricalSyncInterval),
		MinimumBatchSize:      10,
		SubBatchDelay:         100 * time.Millisecond,
		MaxChannelUpdateBurst: discovery.DefaultMaxChannelUpdateBurst,
		ChannelUpdateInterval: discovery.DefaultChannelUpdateInterval,
		IsAlias:               func(lnwire.ShortChannelID) bool { return false },
		SignAliasUpdate: func(*lnwire.ChannelUpdate1) (*ecdsa.Signature, error) {
			return nil, errors.New("no alias")
		},
		FindBaseByAlias: func(lnwire.ShortChannelID) (lnwire.ShortChannelID, error) {
			return lnwire.ShortChannelID{}, errors.New("no base scid")
		},
		GetAlias: func(lnwire.ChannelID) (lnwire.ShortChannelID, error) {
			return lnwire.ShortChannelID{}, errors.New("no alias")
		},
		FindChannel:          w.findChannel,
		IsStillZombieChannel: w.builder.IsZombieChannel,
		AssumeChannelValid:   false,
		BanThreshold:         banThreshold,
	}, &keychain.KeyDescriptor{PubKey: self.priv.PubKey(), KeyLocator: keychain.KeyLocator{Family: keychain.KeyFamilyNodeKey}})
	r.Must(w.gsp.Start(), "gossiper start")

	for i := 0; i < npeers; i++ {
		priv, err := btcec.NewPrivateKey()
		r.Must(err, "peer key")
		p := &simPeer{w: w, name: fmt.Sprintf("P%d", i), priv: priv, quit: make(chan struct{}), hasSync: i < syncPeers}
		copy(p.pub[:], priv.PubKey().SerializeCompressed())
		w.peers = append(w.peers, p)
	}
	// The remote endpoint of each own channel is a peer of its own (no
	// gossip syncer), connected at the start.
	for _, c := range ownChans {
		rn := c.n[1-c.selfIdx]
		if w.chanPeerByKey(rn.pub) != nil {
			continue
		}
		p := &simPeer{w: w, name: fmt.Sprintf("R%d", rn.idx), priv: rn.priv, pub: rn.pub, quit: make(chan struct{}),
			chanPeer: true, online: true, node: rn}
		w.chanPeers = append(w.chanPeers, p)
	}
	w.settle()

	// Peers that speak gossip queries get a GossipSyncer. The first one is
	// asked for a historical sync; it answers "nothing you do not know",
	// which completes the node's initial graph sync, so that remote
	// announcements become eligible for relay (as on a running node).
	for _, p := range w.peers {
		if !p.hasSync {
			continue
		}
		w.gsp.InitSyncState(p)
		w.settle()
		w.answerQueries()
	}
	if syncPeers > 0 && !w.gsp.SyncManager().IsGraphSynced() {
		r.Harness("initial historical sync did not complete")
	}
	return w
}

// answerQueries lets every peer answer gossip queries it was sent: no
// channels to offer.
func (w *World) answerQueries() {
	for round := 0; round < 8; round++ {
		did := false
		for _, p := range w.peers {
			p.mu.Lock()
			in := p.inbox
			p.inbox = nil
			p.mu.Unlock()
			for _, m := range in {
				switch q := m.(type) {
				case *lnwire.QueryChannelRange:
					rep := &lnwire.ReplyChannelRange{
						ChainHash:        q.ChainHash,
						FirstBlockHeight: q.FirstBlockHeight,
						NumBlocks:        q.NumBlocks,
						Complete:         1,
						EncodingType:     lnwire.EncodingSortedPlain,
					}
					w.gsp.ProcessRemoteAnnouncement(w.ctx, rep, p)
					did = true
				case *lnwire.QueryShortChanIDs:
					w.gsp.ProcessRemoteAnnouncement(w.ctx,
						&lnwire.ReplyShortChanIDsEnd{ChainHash: q.ChainHash, Complete: 1}, p)
					did = true
				}
			}
		}
		if !did {
			return
		}
		w.settle()
	}
}

// Deliver hands msg to the gossiper as coming from peer p; the result is
// filled in asynchronously (a premature update never gets one).
func (w *World) Deliver(p *simPeer, msg lnwire.Message) *delivery {
	d := &delivery{}
	go func() {
		fut := w.gsp.ProcessRemoteAnnouncement(w.ctx, msg, p)
		err := discovery.AwaitGossipResult(w.ctx, fut)
		if w.ctx.Err() != nil {
			return
		}
		d.mu.Lock()
		d.done, d.err = true, err
		d.mu.Unlock()
		w.bump()
	}()
	return d
}

// DeliverLocal hands msg to the gossiper the way a local sub-system (the
// funding manager) does.
func (w *World) DeliverLocal(msg lnwire.Message, opts ...discovery.OptionalMsgField) *delivery {
	d := &delivery{}
	go func() {
		fut := w.gsp.ProcessLocalAnnouncement(msg, opts...)
		err := discovery.AwaitGossipResult(w.ctx, fut)
		if w.ctx.Err() != nil {
			return
		}
		d.mu.Lock()
		d.done, d.err = true, err
		d.mu.Unlock()
		w.bump()
	}()
	return d
}

// Stop shuts everything down so that the bubble can end.
func (w *World) Stop() {
	w.cancel()
	for _, p := range w.peers {
		close(p.quit)
	}
	for _, p := range w.chanPeers {
		close(p.quit)
	}
	for _, p := range w.nodePeers {
		close(p.quit)
	}
	if w.gsp != nil {
		w.gsp.Stop()
	}
	if w.builder != nil {
		w.builder.Stop()
	}
	if w.cg != nil {
		w.cg.Stop()
	}
	synctest.Wait()
	if w.kv != nil {
		w.kv.Close()
	}
	if w.aux != nil {
		w.aux.Close()
	}
	if w.sql != nil {
		w.sql.DB.Close()
	}
}
