// Package gossipsim is the deterministic-simulation engine for property C20
// ("only authentic, fresh gossip changes the channel graph"). A real
// discovery.AuthenticatedGossiper + graph.Builder + graph DB run inside a
// testing/synctest bubble; the simulator owns the chain, the peers, the clock
// and every gossip message.
package gossipsim

import (
	"errors"
	"fmt"
	"sync"

	"github.com/btcsuite/btcd/chainhash/v2"
	"github.com/btcsuite/btcd/wire/v2"
	"github.com/lightningnetwork/lnd/chainntnfs"
	graphdb "github.com/lightningnetwork/lnd/graph/db"
	"github.com/lightningnetwork/lnd/lnwallet/btcwallet"
	"github.com/lightningnetwork/lnd/routing/chainview"
)

// simBlock is one block of the simulated chain.
type simBlock struct {
	hash   chainhash.Hash
	header wire.BlockHeader
	txs    []*wire.MsgTx
}

// SimChain is the simulator-owned blockchain. It implements
// lnwallet.BlockChainIO, chainview.FilteredChainView and
// chainntnfs.ChainNotifier (block epochs only). Everything is driven by the
// simulator: blocks appear only when MineBlock is called.
type SimChain struct {
	mu sync.Mutex

	blocks []*simBlock
	byHash map[chainhash.Hash]int

	// planned holds transactions that will be included when the block of
	// that height is mined (funding transactions "in the future").
	planned map[int32][]*wire.MsgTx

	// spentAt records the height at which an outpoint was spent.
	spentAt map[wire.OutPoint]int32

	// outputs is every output created by a (mined) transaction.
	outputs map[wire.OutPoint]*wire.TxOut

	filter map[wire.OutPoint]struct{}

	newBlocks   chan *chainview.FilteredBlock
	staleBlocks chan *chainview.FilteredBlock
	epochs      []chan *chainntnfs.BlockEpoch

	// counters (activity measure for quiescence detection)
	calls int

	// saidUnspent: outpoints GetUtxo reported as unspent since the simulator
	// last cleared the set (once per step). A channel whose funding output is
	// spent by a block that arrives while its announcement is being handled
	// was validated against this answer.
	saidUnspent map[wire.OutPoint]bool
	// injected backend fault: GetUtxo fails with an I/O error
	failUtxo   bool
	utxoFailed int
}

// SaidUnspent: GetUtxo answered "unspent" for op since the last ClearAnswers.
func (c *SimChain) SaidUnspent(op wire.OutPoint) bool {
	c.mu.Lock()
	defer c.mu.Unlock()
	return c.saidUnspent[op]
}

// ClearAnswers forgets the answers recorded so far.
func (c *SimChain) ClearAnswers() {
	c.mu.Lock()
	defer c.mu.Unlock()
	c.saidUnspent = nil
}

// NewSimChain creates a chain with a genesis block only.
func NewSimChain() *SimChain {
	c := &SimChain{
		byHash:      map[chainhash.Hash]int{},
		planned:     map[int32][]*wire.MsgTx{},
		spentAt:     map[wire.OutPoint]int32{},
		outputs:     map[wire.OutPoint]*wire.TxOut{},
		filter:      map[wire.OutPoint]struct{}{},
		newBlocks:   make(chan *chainview.FilteredBlock, 64),
		staleBlocks: make(chan *chainview.FilteredBlock, 64),
	}
	c.appendBlock(nil)
	return c
}

// coinbaseLike returns a unique dummy first transaction for a block.
func coinbaseLike(height int32) *wire.MsgTx {
	tx := wire.NewMsgTx(2)
	tx.AddTxIn(&wire.TxIn{
		PreviousOutPoint: wire.OutPoint{Index: 0xffffffff},
		SignatureScript:  []byte{0x51, byte(height), byte(height >> 8), byte(height >> 16)},
		Sequence:         0xffffffff,
	})
	tx.AddTxOut(&wire.TxOut{Value: 50_0000_0000, PkScript: []byte{0x51}})
	return tx
}

func (c *SimChain) appendBlock(txs []*wire.MsgTx) *simBlock {
	height := int32(len(c.blocks))
	all := append([]*wire.MsgTx{coinbaseLike(height)}, txs...)
	var prev chainhash.Hash
	if height > 0 {
		prev = c.blocks[height-1].hash
	}
	// A stand-in merkle root: hash of the concatenated txids.
	var cat []byte
	for _, tx := range all {
		h := tx.TxHash()
		cat = append(cat, h[:]...)
	}
	hdr := wire.BlockHeader{
		Version:    2,
		PrevBlock:  prev,
		MerkleRoot: chainhash.DoubleHashH(cat),
		Bits:       0x207fffff,
		Nonce:      uint32(height),
	}
	b := &simBlock{hash: hdr.BlockHash(), header: hdr, txs: all}
	c.blocks = append(c.blocks, b)
	c.byHash[b.hash] = int(height)
	for _, tx := range all {
		txid := tx.TxHash()
		for i, out := range tx.TxOut {
			c.outputs[wire.OutPoint{Hash: txid, Index: uint32(i)}] = out
		}
		for _, in := range tx.TxIn {
			if _, ok := c.outputs[in.PreviousOutPoint]; ok {
				c.spentAt[in.PreviousOutPoint] = height
			}
		}
	}
	return b
}

// Plan schedules tx for inclusion in the block at the given height and
// returns its index inside that block. Only valid for heights not yet mined.
func (c *SimChain) Plan(height int32, tx *wire.MsgTx) int {
	c.mu.Lock()
	defer c.mu.Unlock()
	c.planned[height] = append(c.planned[height], tx)
	return len(c.planned[height]) // index 0 is the coinbase-like tx
}

// Height returns the best height.
func (c *SimChain) Height() int32 {
	c.mu.Lock()
	defer c.mu.Unlock()
	return int32(len(c.blocks) - 1)
}

// MineSilently extends the chain without notifying anyone (used before the
// node under test is started).
func (c *SimChain) MineSilently(extra ...*wire.MsgTx) {
	c.mu.Lock()
	defer c.mu.Unlock()
	h := int32(len(c.blocks))
	txs := append(c.planned[h], extra...)
	delete(c.planned, h)
	c.appendBlock(txs)
}

// MineBlock extends the chain by one block containing the planned
// transactions for that height plus extra. It returns the new height and two
// functions that deliver the news: one to the chain view client (graph
// builder), one to the block-epoch clients (gossiper). In a real node the two
// notifications race; the simulator chooses the order.
func (c *SimChain) MineBlock(extra ...*wire.MsgTx) (int32, func(), func()) {
	c.mu.Lock()
	h := int32(len(c.blocks))
	txs := append(c.planned[h], extra...)
	delete(c.planned, h)
	b := c.appendBlock(txs)
	fb := c.filtered(b, h)
	epochs := append([]chan *chainntnfs.BlockEpoch(nil), c.epochs...)
	c.mu.Unlock()

	toView := func() {
		select {
		case c.newBlocks <- fb:
		default:
			panic("gossipsim: chain view block channel full")
		}
	}
	hash := b.hash
	hdr := b.header
	toEpochs := func() {
		for _, ch := range epochs {
			select {
			case ch <- &chainntnfs.BlockEpoch{Hash: &hash, Height: h, BlockHeader: &hdr}:
			default:
				panic("gossipsim: epoch channel full")
			}
		}
	}
	return h, toView, toEpochs
}

// filtered returns the transactions of b that spend a watched outpoint.
func (c *SimChain) filtered(b *simBlock, height int32) *chainview.FilteredBlock {
	fb := &chainview.FilteredBlock{Hash: b.hash, Height: uint32(height)}
	for _, tx := range b.txs {
		for _, in := range tx.TxIn {
			if _, ok := c.filter[in.PreviousOutPoint]; ok {
				fb.Transactions = append(fb.Transactions, tx)
				break
			}
		}
	}
	return fb
}

// SpendTx builds a transaction spending op.
func SpendTx(op wire.OutPoint) *wire.MsgTx {
	tx := wire.NewMsgTx(2)
	tx.AddTxIn(&wire.TxIn{PreviousOutPoint: op, Sequence: 0xffffffff})
	tx.AddTxOut(&wire.TxOut{Value: 1000, PkScript: []byte{0x51}})
	return tx
}

// Truth is what the chain really holds at a short channel id position.
type Truth struct {
	Exists   bool
	OutPoint wire.OutPoint
	Value    int64
	PkScript []byte
	Spent    bool
}

// Lookup returns the truth about (height, txIndex, outIndex) right now.
func (c *SimChain) Lookup(height uint32, txIndex uint32, outIndex uint16) Truth {
	c.mu.Lock()
	defer c.mu.Unlock()
	if int(height) >= len(c.blocks) {
		return Truth{}
	}
	b := c.blocks[height]
	if int(txIndex) >= len(b.txs) {
		return Truth{}
	}
	tx := b.txs[txIndex]
	if int(outIndex) >= len(tx.TxOut) {
		return Truth{}
	}
	op := wire.OutPoint{Hash: tx.TxHash(), Index: uint32(outIndex)}
	_, spent := c.spentAt[op]
	return Truth{
		Exists: true, OutPoint: op, Value: tx.TxOut[outIndex].Value,
		PkScript: tx.TxOut[outIndex].PkScript, Spent: spent,
	}
}

// IsSpent reports whether op has been spent on the simulated chain.
func (c *SimChain) IsSpent(op wire.OutPoint) bool {
	c.mu.Lock()
	defer c.mu.Unlock()
	_, ok := c.spentAt[op]
	return ok
}

// Calls is the number of chain queries served so far.
func (c *SimChain) Calls() int {
	c.mu.Lock()
	defer c.mu.Unlock()
	return c.calls
}

// ---- lnwallet.BlockChainIO ----

func (c *SimChain) GetBestBlock() (*chainhash.Hash, int32, error) {
	c.mu.Lock()
	defer c.mu.Unlock()
	c.calls++
	h := len(c.blocks) - 1
	hash := c.blocks[h].hash
	return &hash, int32(h), nil
}

// FailUtxo turns the injected GetUtxo I/O error on or off and returns how
// many calls failed since it was turned on.
func (c *SimChain) FailUtxo(on bool) int {
	c.mu.Lock()
	defer c.mu.Unlock()
	n := c.utxoFailed
	c.failUtxo, c.utxoFailed = on, 0
	return n
}

func (c *SimChain) GetUtxo(op *wire.OutPoint, _ []byte, _ uint32,
	_ <-chan struct{}) (*wire.TxOut, error) {

	c.mu.Lock()
	defer c.mu.Unlock()
	c.calls++
	if c.failUtxo {
		c.utxoFailed++
		return nil, errors.New("rpc: connection reset by peer (injected)")
	}
	out, ok := c.outputs[*op]
	if !ok {
		return nil, btcwallet.ErrOutputSpent
	}
	if _, spent := c.spentAt[*op]; spent {
		return nil, btcwallet.ErrOutputSpent
	}
	if c.saidUnspent == nil {
		c.saidUnspent = map[wire.OutPoint]bool{}
	}
	c.saidUnspent[*op] = true
	return &wire.TxOut{Value: out.Value, PkScript: out.PkScript}, nil
}

func (c *SimChain) GetBlockHash(height int64) (*chainhash.Hash, error) {
	c.mu.Lock()
	defer c.mu.Unlock()
	c.calls++
	if height < 0 || height >= int64(len(c.blocks)) {
		// the text btcd returns for an unknown height
		return nil, errors.New("-1: Block number out of range")
	}
	hash := c.blocks[height].hash
	return &hash, nil
}

func (c *SimChain) GetBlock(hash *chainhash.Hash) (*wire.MsgBlock, error) {
	c.mu.Lock()
	defer c.mu.Unlock()
	c.calls++
	h, ok := c.byHash[*hash]
	if !ok {
		return nil, errors.New("-5: Block not found")
	}
	b := c.blocks[h]
	blk := wire.NewMsgBlock(&b.header)
	for _, tx := range b.txs {
		blk.Transactions = append(blk.Transactions, tx.Copy())
	}
	return blk, nil
}

func (c *SimChain) GetBlockHeader(hash *chainhash.Hash) (*wire.BlockHeader, error) {
	c.mu.Lock()
	defer c.mu.Unlock()
	c.calls++
	h, ok := c.byHash[*hash]
	if !ok {
		return nil, errors.New("-5: Block not found")
	}
	hdr := c.blocks[h].header
	return &hdr, nil
}

// ---- chainview.FilteredChainView ----

// view is the FilteredChainView facet (Start/Stop clash with ChainNotifier).
type view struct{ c *SimChain }

func (c *SimChain) View() chainview.FilteredChainView { return &view{c} }

func (v *view) FilteredBlocks() <-chan *chainview.FilteredBlock     { return v.c.newBlocks }
func (v *view) DisconnectedBlocks() <-chan *chainview.FilteredBlock { return v.c.staleBlocks }
func (v *view) Start() error                                        { return nil }
func (v *view) Stop() error                                         { return nil }

func (v *view) UpdateFilter(ops []graphdb.EdgePoint, _ uint32) error {
	v.c.mu.Lock()
	defer v.c.mu.Unlock()
	v.c.calls++
	for _, op := range ops {
		v.c.filter[op.OutPoint] = struct{}{}
	}
	return nil
}

func (v *view) FilterBlock(hash *chainhash.Hash) (*chainview.FilteredBlock, error) {
	v.c.mu.Lock()
	defer v.c.mu.Unlock()
	v.c.calls++
	h, ok := v.c.byHash[*hash]
	if !ok {
		return nil, fmt.Errorf("block %v not found", hash)
	}
	return v.c.filtered(v.c.blocks[h], int32(h)), nil
}

// ---- chainntnfs.ChainNotifier ----

type notifier struct{ c *SimChain }

func (c *SimChain) Notifier() chainntnfs.ChainNotifier { return &notifier{c} }

func (n *notifier) RegisterConfirmationsNtfn(*chainhash.Hash, []byte, uint32, uint32,
	...chainntnfs.NotifierOption) (*chainntnfs.ConfirmationEvent, error) {

	return nil, errors.New("gossipsim: confirmations not simulated")
}

func (n *notifier) RegisterSpendNtfn(*wire.OutPoint, []byte, uint32) (*chainntnfs.SpendEvent, error) {
	return nil, errors.New("gossipsim: spend notifications not simulated")
}

func (n *notifier) RegisterBlockEpochNtfn(*chainntnfs.BlockEpoch) (*chainntnfs.BlockEpochEvent, error) {
	n.c.mu.Lock()
	defer n.c.mu.Unlock()
	ch := make(chan *chainntnfs.BlockEpoch, 64)
	n.c.epochs = append(n.c.epochs, ch)
	return &chainntnfs.BlockEpochEvent{Epochs: ch, Cancel: func() {}}, nil
}

func (n *notifier) Start() error  { return nil }
func (n *notifier) Started() bool { return true }
func (n *notifier) Stop() error   { return nil }
