package gossipsim

import (
	"bytes"
	"fmt"
	"os"
	"strings"
	"time"
)

// skipStoredProofCheck (debugging aid for sensitivity experiments only): the
// proof read back from the graph is not judged, so that the oracle on what the
// node SENDS can be shown to catch a bad assembled proof on its own.
var skipStoredProofCheck = os.Getenv("GOSSIPSIM_SKIP_STORED_PROOF_CHECK") != ""

// strictNodeOrder turns on an optional oracle that is NOT part of property
// C20 as stated: BOLT 7 wants node_id_1 < node_id_2 in a channel announcement.
var strictNodeOrder = os.Getenv("GOSSIPSIM_STRICT_NODE_ORDER") != ""

// msgInfo is what the simulator remembers about one distinct wire message it
// has delivered.
type msgInfo struct {
	wire  []byte
	kind  int    // typeChanAnn / typeChanUpdate / typeNodeAnn
	label string // how it was generated (for humans)
	first int    // step of first delivery
	n     int    // deliveries
	// fresh: at one of its deliveries the message carried a timestamp
	// strictly newer than what the graph held for its key (or the graph
	// held nothing). Only meaningful for updates and node announcements.
	fresh bool
	// local: handed to the node by a local sub-system (own-channels arm)
	local bool
	// selfMade: never delivered - the node signed it itself (a re-signed
	// update of its own channel); recorded when it entered the graph
	selfMade bool
}

// endpointOfTransient: key is an endpoint of a channel that was stored during
// this step but is in neither projection (it entered the graph and a block
// arriving inside the same burst removed it again).
func (s *Sim) endpointOfTransient(key [33]byte, before, after *projection) bool {
	if s.seenStored == nil {
		return false
	}
	s.storedMu.Lock()
	defer s.storedMu.Unlock()
	for scid, c := range s.seenStored {
		if before.chans[scid] == nil && after.chans[scid] == nil && (c.node[0] == key || c.node[1] == key) {
			return true
		}
	}
	return false
}

// wasGone: the probe store saw the node absent at some commit of this step.
func (s *Sim) wasGone(key [33]byte) bool {
	if s.nodeGone == nil {
		return false
	}
	s.storedMu.Lock()
	defer s.storedMu.Unlock()
	return s.nodeGone[key]
}

// fail raises a violation. If the graph holds (or held) a channel whose two
// node ids are equal, the violation is reported under the code
// "selfloop-channel" with the specific class as its signature: such a channel
// is itself the anomaly (see findings/), and whatever follows from it is
// attributed to it, so that one known-finding entry covers all of it.
func (s *Sim) fail(code, format string, args ...interface{}) {
	if s.selfloop {
		s.r.FailSig("selfloop-channel", code, "["+code+"] "+format, args...)
	}
	s.r.Fail(code, format, args...)
}

// check compares the graph with its previous projection and judges every
// difference and everything the node sent out since the last check.
func (s *Sim) check(what string) {
	r := s.r
	defer func() {
		s.agedSince = false
		s.blockInBurst = false
		s.w.chain.ClearAnswers()
		if s.nodeGone != nil {
			s.storedMu.Lock()
			s.nodeGone = map[[33]byte]bool{}
			s.storedMu.Unlock()
		}
	}()
	old := s.proj
	cur := s.w.readProjection()
	for _, c := range cur.chans {
		if c.node[0] == c.node[1] {
			s.selfloop = true
		}
	}

	// ---- channels ----
	for _, scid := range cur.scids() {
		c := cur.chans[scid]
		o, had := old.chans[scid]
		if !had {
			delete(s.prematurePending, fmt.Sprintf("%d/0", scid))
			delete(s.prematurePending, fmt.Sprintf("%d/1", scid))
			s.justifyChanAdd(c, what)
			o = &pChan{} // policies compared against "none"
		} else if o.noProof && !c.noProof {
			// an unannounced channel of the node itself got its proof
			s.justifyProof(o, c, what)
		} else if !bytes.Equal(o.wire, c.wire) || o.err != c.err || o.capacity != c.capacity || o.outpoint != c.outpoint || o.noProof != c.noProof {
			s.fail("chan-modified", "%s: stored announcement/capacity/outpoint of channel %s changed (%x.. -> %x.., cap %d -> %d, %v -> %v); a channel announcement is immutable",
				what, scidStr(scid), head(o.wire), head(c.wire), o.capacity, c.capacity, o.outpoint, c.outpoint)
		}
		for d := 0; d < 2; d++ {
			if polEqual(o.pol[d], c.pol[d]) {
				continue
			}
			if c.pol[d] == nil {
				s.fail("policy-removed", "%s: policy of channel %s direction %d disappeared while the channel stayed", what, scidStr(scid), d)
			}
			s.justifyPolicy(c, d, o.pol[d], c.pol[d], what)
		}
	}
	for _, scid := range old.scids() {
		if _, still := cur.chans[scid]; still {
			continue
		}
		o := old.chans[scid]
		if !s.w.chain.IsSpent(o.outpoint) && s.agedSince {
			// A zombie prune may have run. Documented rule
			// (graph.Builder.pruneZombieChans): a channel is pruned when
			// BOTH edges have not been updated within the prune horizon
			// (a missing policy counts as stale). One-sided: removal is
			// accepted exactly when that holds.
			cut := s.nowTs() - uint32(pruneHorizon/time.Second)
			nStale := 0
			for d := 0; d < 2; d++ {
				if o.pol[d] == nil || o.pol[d].ts < cut {
					nStale++
				}
			}
			// strict zombie pruning: either edge stale; default: both
			stale := nStale == 2 || (s.cfg.StrictZombie && nStale >= 1)
			if stale {
				logf(r, "  graph: channel %s pruned as a zombie (both policies older than the horizon)", scidStr(scid))
				r.Count("graph_chan_removed_zombie")
				s.zombieSince[scid] = s.nowTs()
				delete(s.liveUpd, scid)
				continue
			}
		}
		if !s.w.chain.IsSpent(o.outpoint) {
			s.fail("chan-removed", "%s: channel %s left the graph although its funding output %v is unspent and no pruning was due",
				what, scidStr(scid), o.outpoint)
		}
		logf(r, "  graph: channel %s removed (funding output spent)", scidStr(scid))
		r.Count("graph_chan_removed_spent")
	}

	// ---- nodes ----
	for _, key := range cur.nodeKeys() {
		n := cur.nodes[key]
		o, had := old.nodes[key]
		if key == s.w.self.pub {
			if !had || !bytes.Equal(o.wire, n.wire) {
				s.fail("self-node-changed", "%s: the node's own graph entry was changed by gossip", what)
			}
			continue
		}
		if n.err != "" {
			s.fail("node-unjustified", "%s: node %s stored in a form that cannot be announced: %s", what, short(key[:]), n.err)
		}
		switch {
		case had && bytes.Equal(o.wire, n.wire) && o.ts == n.ts:
			continue
		case n.wire == nil && !had:
			// shell node: created together with a channel
			if !cur.hasEndpoint(key) {
				s.fail("node-unjustified", "%s: node %s appeared in the graph without announcement and without any channel", what, short(key[:]))
			}
			r.Count("graph_shell_node_added")
		case n.wire == nil && had:
			// A node whose channels were all closed is pruned from the
			// graph; if a new channel of that node arrives in the same
			// step it comes back as a shell. Legitimate only if none of
			// its previous channels survived.
			for _, oscid := range old.scids() {
				oc := old.chans[oscid]
				if (oc.node[0] == key || oc.node[1] == key) && cur.chans[oscid] != nil {
					s.fail("node-downgraded", "%s: node %s lost its announcement although its channel %s stayed in the graph", what, short(key[:]), scidStr(oscid))
				}
			}
			if !cur.hasEndpoint(key) {
				s.fail("node-unjustified", "%s: node %s is in the graph without any channel", what, short(key[:]))
			}
			r.Count("probe_node_pruned_and_recreated")
		default:
			var prev *pNode
			if had {
				prev = o
			}
			s.justifyNode(n, prev, old, cur, what)
		}
	}
	for _, key := range old.nodeKeys() {
		if _, still := cur.nodes[key]; still {
			continue
		}
		if key == s.w.self.pub {
			s.fail("self-node-changed", "%s: the node's own graph entry vanished", what)
		}
		if cur.hasEndpoint(key) {
			s.fail("node-removed", "%s: node %s left the graph although it still has a channel", what, short(key[:]))
		}
		r.Count("graph_node_removed")
	}

	// ---- relays ----
	if s.cfg.Own {
		s.ownInbox(what)
	}
	if s.seenStored != nil {
		// channels that entered the graph and left it again within this
		// step (a block inside a burst) were in the graph all the same
		s.storedMu.Lock()
		for scid, c := range s.seenStored {
			if s.everChan[scid] == nil && cur.chans[scid] == nil {
				s.everChan[scid] = c
				s.everEndpoint[c.node[0]] = true
				s.everEndpoint[c.node[1]] = true
				r.Count("probe_channel_came_and_went_within_one_step")
			}
		}
		s.storedMu.Unlock()
	}
	for _, e := range s.w.drain() {
		s.justifyRelay(e, old, cur, what)
	}

	s.w.checkCache(cur, what, s.fail)

	for _, scid := range cur.scids() {
		c := cur.chans[scid]
		s.everChan[scid] = c
		s.everEndpoint[c.node[0]] = true
		s.everEndpoint[c.node[1]] = true
	}
	s.proj = cur
	r.State(cur.abstract())
}

func head(b []byte) []byte {
	if len(b) > 12 {
		return b[:12]
	}
	return b
}

func (s *Sim) findDelivered(wire []byte) *msgInfo {
	return s.byWire[string(wire)]
}

// justifyChanAdd: "A channel announcement from the network enters the graph
// only if all four signatures verify over the announcement digest under the
// stated node and bitcoin keys and the referenced funding output exists, is
// unspent and pays to the 2-of-2 of those bitcoin keys."
func (s *Sim) justifyChanAdd(c *pChan, what string) {
	r := s.r
	id := scidStr(c.scid)
	if c.err != "" {
		s.fail("chan-unjustified", "%s: channel %s entered the graph in a form that cannot be announced: %s", what, id, c.err)
	}
	if since, z := s.zombieSince[c.scid]; z {
		// A channel that was pruned as a zombie comes back only through
		// fresh gossip: documented rule of graph.Builder.IsStaleEdgePolicy /
		// the gossiper's zombie handling - an update for a zombie channel
		// is fresh only if its timestamp lies within the prune horizon.
		if !s.liveUpd[c.scid] {
			s.fail("zombie-resurrected-by-stale-gossip", "%s: channel %s was pruned as a zombie at %d and is back in the graph although no channel_update with a timestamp within the prune horizon was delivered for it since", what, id, since)
		}
		r.Count("probe_zombie_channel_resurrected")
		delete(s.zombieSince, c.scid)
		delete(s.liveUpd, c.scid)
	}
	mi := s.findDelivered(c.wire)
	if oc := s.own[c.scid]; oc != nil && oc.opened > 0 && (c.noProof || mi == nil) {
		// a channel of the node itself, handed over by the funding manager
		s.justifyOwnAdd(oc, c, what)
		return
	}
	if c.noProof {
		s.fail("chan-unjustified", "%s: channel %s entered the graph without a channel proof although no local sub-system handed it over", what, id)
	}
	if mi == nil || mi.kind != typeChanAnn {
		s.fail("chan-unjustified", "%s: channel %s entered the graph, but no delivered channel_announcement has the bytes the graph now holds (%x..)", what, id, head(c.wire))
	}
	m, ok := parseCA(mi.wire)
	if !ok || m.scid != c.scid {
		s.fail("chan-unjustified", "%s: channel %s: stored announcement does not parse as one for that id", what, id)
	}
	if !m.sigsOK() {
		s.fail("chan-bad-signature", "%s: channel %s entered the graph from announcement [%s] whose four signatures do not all verify over its digest under the stated keys", what, id, mi.label)
	}
	if !bytes.Equal(m.chainHash, s.u.chainHash[:]) {
		s.fail("chan-wrong-chain", "%s: channel %s entered the graph from announcement [%s] for another chain", what, id, mi.label)
	}
	t := s.w.chain.Lookup(m.height(), m.txIndex(), m.outIndex())
	if !t.Exists {
		s.fail("chan-no-funding", "%s: channel %s entered the graph from [%s], but the chain has no output at that position", what, id, mi.label)
	}
	if t.Spent && s.blockInBurst && s.w.chain.SaidUnspent(t.OutPoint) {
		// The block that spends the output arrived while this announcement
		// was being handled: the chain was asked before the block and said
		// "unspent" (and the chain view's filter did not name the output
		// yet, so the block does not prune the channel either). Judged by the
		// answer the node got, not by the chain at the end of the step.
		r.Count("probe_channel_validated_before_the_block_that_spends_its_funding")
	} else if t.Spent {
		s.fail("chan-funding-spent", "%s: channel %s entered the graph from [%s], but its funding output %v is already spent", what, id, mi.label, t.OutPoint)
	}
	if !bytes.Equal(t.PkScript, p2wsh2of2(m.btc1, m.btc2)) {
		s.fail("chan-funding-mismatch", "%s: channel %s entered the graph from [%s], but output %v does not pay to the 2-of-2 of the announced bitcoin keys", what, id, mi.label, t.OutPoint)
	}
	if c.capacity != t.Value || c.outpoint != t.OutPoint {
		s.fail("chan-wrong-capacity", "%s: channel %s stored with capacity %d / outpoint %v, the chain says %d / %v", what, id, c.capacity, c.outpoint, t.Value, t.OutPoint)
	}
	if strictNodeOrder && bytes.Compare(m.node1, m.node2) >= 0 {
		s.fail("chan-node-order", "%s: channel %s entered the graph from [%s] with node_id_1 %s not below node_id_2 %s (BOLT 7 requires ascending order; checked only with GOSSIPSIM_STRICT_NODE_ORDER=1)", what, id, mi.label, short(m.node1), short(m.node2))
	}
	if !bytes.Equal(c.node[0][:], m.node1) || !bytes.Equal(c.node[1][:], m.node2) {
		s.fail("chan-unjustified", "%s: channel %s stored under node keys other than the announced ones", what, id)
	}
	if !s.curWires[string(mi.wire)] {
		r.Count("probe_buffered_announcement_applied_later")
	}
	logf(r, "  graph: + channel %s from [%s] cap=%d", id, mi.label, c.capacity)
	r.Count("graph_chan_added")
	s.applied++
}

// justifyPolicy: "A channel update is applied only if it is signed by the node
// owning that direction of a known channel, is strictly newer than the stored
// one and carries consistent fields."
func (s *Sim) justifyPolicy(c *pChan, d int, old, cur *pPolicy, what string) {
	r := s.r
	id := fmt.Sprintf("%s/%d", scidStr(c.scid), d)
	if cur.err != "" {
		s.fail("policy-unjustified", "%s: policy %s stored in a form that cannot be announced: %s", what, id, cur.err)
	}
	mi := s.findDelivered(cur.wire)
	if oc := s.own[c.scid]; mi == nil && oc != nil && d == oc.c.selfIdx && cur.wire != nil {
		mi = s.selfMadeUpdate(c, d, old, cur, what)
	}
	if mi == nil || mi.kind != typeChanUpdate {
		s.fail("policy-unjustified", "%s: policy %s changed (ts %d), but no delivered channel_update has the bytes the graph now holds (%x..)", what, id, cur.ts, head(cur.wire))
	}
	m, ok := parseCU(mi.wire)
	if !ok || m.scid != c.scid || m.dir() != d {
		s.fail("policy-unjustified", "%s: policy %s now holds update [%s], which is not for that channel and direction", what, id, mi.label)
	}
	if !m.signedBy(c.node[d][:]) {
		s.fail("policy-bad-signature", "%s: policy %s taken from update [%s] that is not signed by node %s owning that direction", what, id, mi.label, short(c.node[d][:]))
	}
	if !bytes.Equal(m.chainHash, s.u.chainHash[:]) {
		s.fail("policy-wrong-chain", "%s: policy %s taken from update [%s] for another chain", what, id, mi.label)
	}
	if !m.consistent(c.capacity) {
		s.fail("policy-inconsistent", "%s: policy %s taken from update [%s] with inconsistent fields (flags=%#x min=%d max=%d capacity=%d sat)", what, id, mi.label, m.msgFlags, m.minHtlc, m.maxHtlc, c.capacity)
	}
	if old != nil && !(m.ts > old.ts) {
		s.fail("policy-not-newer", "%s: policy %s replaced by update [%s] with timestamp %d, stored one had %d", what, id, mi.label, m.ts, old.ts)
	}
	if cur.ts != m.ts {
		s.fail("policy-unjustified", "%s: policy %s timestamp %d differs from the update's %d", what, id, cur.ts, m.ts)
	}
	if !s.curWires[string(mi.wire)] {
		r.Count("probe_buffered_update_applied_later")
	}
	logf(r, "  graph: policy %s <- [%s] ts=%d", id, mi.label, m.ts)
	r.Count("graph_policy_applied")
	if old != nil {
		r.Count("graph_policy_replaced")
	}
	s.applied++
}

// justifyNode: "a node announcement only if signed by that node, newer, and
// the node has a known channel."
func (s *Sim) justifyNode(n, old *pNode, before, after *projection, what string) {
	r := s.r
	id := short(n.key[:])
	mi := s.findDelivered(n.wire)
	if mi == nil || mi.kind != typeNodeAnn {
		s.fail("node-unjustified", "%s: node %s changed, but no delivered node_announcement has the bytes the graph now holds (%x..)", what, id, head(n.wire))
	}
	m, ok := parseNA(mi.wire)
	if !ok || !bytes.Equal(m.nodeID, n.key[:]) {
		s.fail("node-unjustified", "%s: node %s now holds announcement [%s] of another node", what, id, mi.label)
	}
	if !m.sigOK() {
		s.fail("node-bad-signature", "%s: node %s taken from announcement [%s] not signed by that node", what, id, mi.label)
	}
	if old != nil && old.wire != nil && !(m.ts > old.ts) && s.wasGone(n.key) {
		// pruned with its last channel and announced again within one step
		// (a block inside a burst): there was no stored one to be newer than
		r.Count("probe_node_pruned_and_reannounced_within_one_step")
	} else if old != nil && old.wire != nil && !(m.ts > old.ts) {
		s.fail("node-not-newer", "%s: node %s replaced by announcement [%s] with timestamp %d, stored one had %d", what, id, mi.label, m.ts, old.ts)
	}
	if !before.hasEndpoint(n.key) && !after.hasEndpoint(n.key) && !s.endpointOfTransient(n.key, before, after) {
		s.fail("node-without-channel", "%s: node %s accepted from [%s] although it has no known channel", what, id, mi.label)
	}
	logf(r, "  graph: node %s <- [%s] ts=%d", id, mi.label, m.ts)
	r.Count("graph_node_applied")
	s.applied++
}

// justifyRelay: "Anything else ... is not relayed to peers."
func (s *Sim) justifyRelay(e emitted, before, after *projection, what string) {
	r := s.r
	if traceFile != nil && traceEmit {
		// debugging aid; not part of the hashed trace
		fmt.Fprintf(traceFile, "    emit #%d %s %x..\n", s.step, e.via, head(e.wire))
	}
	mi := s.findDelivered(e.wire)
	if mi == nil {
		if bytes.Equal(e.wire, s.w.selfWire) {
			r.Count("relay_self_node")
			return
		}
		if s.cfg.Own && s.ownAssembledRelay(e, after, what) {
			return
		}
		s.fail("relay-unknown", "%s: the node sent out (%s) a gossip message nobody delivered to it: %x..", what, e.via, head(e.wire))
	}
	r.Count("relayed")
	switch mi.kind {
	case typeChanAnn:
		m, _ := parseCA(mi.wire)
		if s.ownAnnouncementSent(m, e, after, what) {
			// a peer delivered the very bytes the node later assembled
			// itself for its own channel
			r.Count("relayed_own_chan_ann")
			return
		}
		c := s.everChan[m.scid]
		if c == nil {
			c = after.chans[m.scid]
		}
		entered := c != nil && bytes.Equal(c.wire, mi.wire)
		if !entered {
			if ac := after.chans[m.scid]; ac != nil && bytes.Equal(ac.wire, mi.wire) {
				entered = true
			}
		}
		if !entered && s.everCAWire != nil {
			s.storedMu.Lock()
			entered = s.everCAWire[string(mi.wire)]
			s.storedMu.Unlock()
		}
		if !entered {
			s.fail("relay-unaccepted", "%s: channel_announcement [%s] relayed (%s) although it never entered the graph", what, mi.label, e.via)
		}
		if !m.sigsOK() {
			s.fail("relay-bad-signature", "%s: channel_announcement [%s] sent out (%s) although its four signatures do not all verify over its digest under the stated keys", what, mi.label, e.via)
		}
		r.Count("relayed_chan_ann")
	case typeChanUpdate:
		m, _ := parseCU(mi.wire)
		c := s.everChan[m.scid]
		if c == nil {
			c = after.chans[m.scid]
		}
		if c == nil {
			s.fail("relay-unaccepted", "%s: channel_update [%s] relayed (%s) for a channel that never was in the graph", what, mi.label, e.via)
		}
		if !m.signedBy(c.node[m.dir()][:]) || !bytes.Equal(m.chainHash, s.u.chainHash[:]) {
			s.fail("relay-inauthentic", "%s: channel_update [%s] relayed (%s) although it is not signed by the node owning that direction", what, mi.label, e.via)
		}
		if !m.consistent(c.capacity) {
			s.fail("relay-inauthentic", "%s: channel_update [%s] with inconsistent fields relayed (%s)", what, mi.label, e.via)
		}
		if !mi.fresh {
			s.fail("relay-stale", "%s: channel_update [%s] (ts %d) relayed (%s) although at every delivery the graph already held an equal or newer one", what, mi.label, m.ts, e.via)
		}
		if s.everStored != nil {
			s.storedMu.Lock()
			was := s.everStored[storedKey{m.scid, m.dir(), m.ts}]
			s.storedMu.Unlock()
			r.Count("relay_applied_checks")
			if !was {
				s.fail("relay-unapplied", "%s: channel_update [%s] (ts %d) relayed (%s) although a policy with that timestamp was never stored for %s/%d: the update was not applied (refused at write time, or its channel had left the graph) and still went out",
					what, mi.label, m.ts, e.via, scidStr(m.scid), m.dir())
			}
		}
		r.Count("relayed_chan_update")
	case typeNodeAnn:
		m, _ := parseNA(mi.wire)
		var key [33]byte
		copy(key[:], m.nodeID)
		if !m.sigOK() {
			s.fail("relay-inauthentic", "%s: node_announcement [%s] relayed (%s) although not signed by that node", what, mi.label, e.via)
		}
		if !s.everEndpoint[key] && !after.hasEndpoint(key) {
			s.fail("relay-unaccepted", "%s: node_announcement [%s] relayed (%s) although the node never had a known channel", what, mi.label, e.via)
		}
		if !mi.fresh {
			s.fail("relay-stale", "%s: node_announcement [%s] (ts %d) relayed (%s) although at every delivery the graph already held an equal or newer one", what, mi.label, m.ts, e.via)
		}
		r.Count("relayed_node_ann")
	}
}

// ---- channels of the node itself (own-channels arm) ----

// checkFunding: "... and the referenced funding output exists, is unspent and
// pays to the 2-of-2 of those bitcoin keys" plus what the graph stores about it.
func (s *Sim) checkFunding(c *pChan, m *wireCA, label, what string) {
	id := scidStr(c.scid)
	if !bytes.Equal(m.chainHash, s.u.chainHash[:]) {
		s.fail("chan-wrong-chain", "%s: channel %s entered the graph from announcement [%s] for another chain", what, id, label)
	}
	t := s.w.chain.Lookup(m.height(), m.txIndex(), m.outIndex())
	if !t.Exists {
		s.fail("chan-no-funding", "%s: channel %s entered the graph from [%s], but the chain has no output at that position", what, id, label)
	}
	if t.Spent && s.blockInBurst && s.w.chain.SaidUnspent(t.OutPoint) {
		// The block that spends the output arrived while this announcement
		// was being handled: the chain was asked before the block and said
		// "unspent" (and the chain view's filter did not name the output
		// yet, so the block does not prune the channel either). Judged by the
		// answer the node got, not by the chain at the end of the step.
		s.r.Count("probe_channel_validated_before_the_block_that_spends_its_funding")
	} else if t.Spent {
		s.fail("chan-funding-spent", "%s: channel %s entered the graph from [%s], but its funding output %v is already spent", what, id, label, t.OutPoint)
	}
	if !bytes.Equal(t.PkScript, p2wsh2of2(m.btc1, m.btc2)) {
		s.fail("chan-funding-mismatch", "%s: channel %s entered the graph from [%s], but output %v does not pay to the 2-of-2 of the announced bitcoin keys", what, id, label, t.OutPoint)
	}
	if c.capacity != t.Value || c.outpoint != t.OutPoint {
		s.fail("chan-wrong-capacity", "%s: channel %s stored with capacity %d / outpoint %v, the chain says %d / %v", what, id, c.capacity, c.outpoint, t.Value, t.OutPoint)
	}
	if !bytes.Equal(c.node[0][:], m.node1) || !bytes.Equal(c.node[1][:], m.node2) {
		s.fail("chan-unjustified", "%s: channel %s stored under node keys other than the announced ones", what, id)
	}
}

// justifyOwnAdd: a channel of the node itself enters the graph because the
// funding manager handed it over - with exactly the announced fields, a sound
// funding output, and (normally) without proof.
func (s *Sim) justifyOwnAdd(oc *ownChan, c *pChan, what string) {
	r := s.r
	id := scidStr(c.scid)
	m, ok := parseCA(c.wire)
	if !ok || m.scid != c.scid {
		s.fail("chan-unjustified", "%s: channel %s: stored announcement does not parse as one for that id", what, id)
	}
	if !bytes.Equal(m.signed, oc.caWire[2+256:]) {
		s.fail("chan-unjustified", "%s: own channel %s entered the graph with other fields than the funding manager handed over", what, id)
	}
	label := fmt.Sprintf("local CA chan%d without proof", oc.c.idx)
	s.checkFunding(c, m, label, what)
	if !c.noProof {
		// announcement and both halves went through within one step
		s.checkProof(oc, c, m, what)
	}
	logf(r, "  graph: + own channel %s from [%s] cap=%d", id, label, c.capacity)
	r.Count("graph_own_chan_added")
	s.applied++
}

// justifyProof: an unannounced channel of the node itself now carries a
// proof. The announced fields are immutable; the proof must verify.
func (s *Sim) justifyProof(o, c *pChan, what string) {
	id := scidStr(c.scid)
	m, ok := parseCA(c.wire)
	mo, ok2 := parseCA(o.wire)
	oc := s.own[c.scid]
	if c.err != "" || !ok || !ok2 || !bytes.Equal(m.signed, mo.signed) || o.capacity != c.capacity || o.outpoint != c.outpoint || oc == nil {
		s.fail("chan-modified", "%s: stored announcement/capacity/outpoint of channel %s changed when its proof was added (%s); a channel announcement is immutable", what, id, c.err)
	}
	s.checkProof(oc, c, m, what)
}

// checkProof: "A channel announcement ... enters the graph only if all four
// signatures verify over the announcement digest under the stated node and
// bitcoin keys" - for the announcement the node assembled itself from the two
// announcement_signatures halves, read back from the graph.
func (s *Sim) checkProof(oc *ownChan, c *pChan, m *wireCA, what string) {
	r := s.r
	id := scidStr(c.scid)
	if oc.localHalves == 0 {
		s.fail("own-proof-without-local-half", "%s: own channel %s now carries a channel proof although the funding manager never handed over the local announcement_signatures (the channel was not to be announced yet)", what, id)
	}
	d := dsha(m.signed)
	keys := [4][]byte{m.node1, m.node2, m.btc1, m.btc2}
	names := [4]string{"node_signature_1", "node_signature_2", "bitcoin_signature_1", "bitcoin_signature_2"}
	var bad []string
	for i := 0; i < 4 && !skipStoredProofCheck; i++ {
		if !verify64(m.sigs[i], d, keys[i]) {
			bad = append(bad, names[i])
		}
	}
	if len(bad) > 0 {
		s.fail("own-proof-bad-signature", "%s: the channel proof the node assembled and stored for its own channel %s does not verify: %s not valid over the announcement digest under the stated key (the node is node %d; remote halves delivered: %s)",
			what, id, strings.Join(bad, ", "), oc.c.selfIdx+1, oc.remoteHalves())
	}
	switch s.stepKind {
	case "own-half-local":
		r.Count("probe_own_proof_completed_by_local_half")
	case "own-half-remote":
		r.Count("probe_own_proof_completed_by_remote_half")
	case "block":
		r.Count("probe_own_proof_completed_when_mature")
	}
	logf(r, "  graph: own channel %s now carries a full proof (four signatures verify)", id)
	r.Count("graph_own_proof_added")
	s.applied++
}

// selfMadeUpdate: the policy of the node's own direction changed to an update
// nobody delivered - the node re-signed its policy itself (retransmission of
// stale announcements). Registered like a delivered message, so that the
// common rules (signed by the owner of the direction, strictly newer,
// consistent) and the relay rules judge it.
func (s *Sim) selfMadeUpdate(c *pChan, d int, old, cur *pPolicy, what string) *msgInfo {
	m, ok := parseCU(cur.wire)
	if !ok || old == nil || !m.signedBy(s.w.self.pub[:]) {
		return nil
	}
	mi := &msgInfo{wire: cur.wire, kind: typeChanUpdate, first: s.step, fresh: true, selfMade: true,
		label: fmt.Sprintf("CU %s/%d ts=%d re-signed by the node itself", scidStr(c.scid), d, m.ts)}
	s.byWire[string(cur.wire)] = mi
	s.curWires[string(cur.wire)] = true
	s.r.Count("probe_own_update_resigned_by_node")
	return mi
}

// ownAssembledRelay: the node sent out a message nobody delivered. Either a
// channel_announcement: it must be the one it assembled for a channel of its
// own - the bytes the graph holds - and "all four signatures verify". Or a
// channel_update it signed itself for its own direction of its own channel
// (a re-signed policy may be replaced by the next one before the simulator
// sees it in the graph): "signed by the node owning that direction of a known
// channel ... and carries consistent fields".
func (s *Sim) ownAssembledRelay(e emitted, after *projection, what string) bool {
	if u, ok := parseCU(e.wire); ok {
		oc := s.own[u.scid]
		c := after.chans[u.scid]
		if c == nil {
			c = s.everChan[u.scid]
		}
		if oc == nil || c == nil || u.dir() != oc.c.selfIdx || !u.signedBy(s.w.self.pub[:]) ||
			!bytes.Equal(u.chainHash, s.u.chainHash[:]) {
			return false
		}
		if !u.consistent(c.capacity) {
			s.fail("relay-inauthentic", "%s: the node sent out (%s) a channel_update it signed itself for %s/%d with inconsistent fields", what, e.via, scidStr(u.scid), u.dir())
		}
		s.r.Count("relayed")
		s.r.Count("relayed_self_made_update")
		return true
	}
	m, ok := parseCA(e.wire)
	if !ok || !s.ownAnnouncementSent(m, e, after, what) {
		return false
	}
	s.r.Count("relayed")
	s.r.Count("relayed_own_chan_ann")
	return true
}

// ownAnnouncementSent: m, sent out by the node, is the announcement of one of
// its own channels: the fields the funding manager handed over, for a channel
// that has been in the graph and that the funding manager asked to announce.
// Then (and whether or not the simulator ever saw the proof in the graph: the
// channel may be closed by the very block that makes the proof mature) "all
// four signatures verify over the announcement digest under the stated node
// and bitcoin keys" is required of it.
func (s *Sim) ownAnnouncementSent(m *wireCA, e emitted, after *projection, what string) bool {
	oc := s.own[m.scid]
	if oc == nil || oc.localHalves == 0 || !bytes.Equal(m.signed, oc.caWire[2+256:]) {
		return false
	}
	if s.everChan[m.scid] == nil && after.chans[m.scid] == nil {
		return false
	}
	if !m.sigsOK() {
		s.fail("relay-bad-signature", "%s: the node sent out (%s) the channel_announcement it assembled for its own channel %s, but its four signatures do not all verify over its digest under the stated keys (remote halves delivered: %s)",
			what, e.via, scidStr(m.scid), oc.remoteHalves())
	}
	return true
}
