package paysim

import (
	"sort"

	"verif/simcore"
)

// Knobs are the per-run swarm parameters.
type Knobs struct {
	NHash    int  // 1..3 payment hashes in play
	WildIDs  bool // attempt ids are drawn from a small pool shared by all hashes (duplicates, foreign ids)
	CrossOps bool // DeletePayments / FetchInFlightPayments are part of the mix
	Values   []int64
	PrefKind [NHash]AttKind // the flavour most attempts of a hash use
	// weights per op kind
	W [10]int
	// how often a register deliberately breaks a rule (out of 16)
	Naughty int
}

// DrawKnobs draws the swarm configuration (configuration draws only).
func DrawKnobs(t *simcore.Tape, wild bool, forceCross int) Knobs {
	k := Knobs{WildIDs: wild}
	k.NHash = 1 + t.CfgDraw(NHash)
	switch forceCross {
	case 0:
		k.CrossOps = false
	case 1:
		k.CrossOps = true
	default:
		k.CrossOps = t.CfgDraw(3) == 0
	}
	k.Values = [][]int64{{1000}, {1000, 4000}, {600, 1000, 4000}}[t.CfgDraw(3)]
	for h := 0; h < NHash; h++ {
		k.PrefKind[h] = []AttKind{AttMPP, AttMPP, AttSingle, AttBlinded}[t.CfgDraw(4)]
	}
	k.W[OpInit] = []int{2, 4, 6}[t.CfgDraw(3)]
	k.W[OpRegister] = []int{6, 10, 14}[t.CfgDraw(3)]
	k.W[OpSettle] = []int{1, 3, 6}[t.CfgDraw(3)]
	k.W[OpFailAttempt] = []int{2, 4, 8}[t.CfgDraw(3)]
	k.W[OpFail] = []int{1, 1, 3}[t.CfgDraw(3)]
	k.W[OpDeletePayment] = []int{0, 1, 2}[t.CfgDraw(3)]
	k.W[OpDeleteFailedAttempts] = []int{0, 1, 2}[t.CfgDraw(3)]
	k.W[OpFetch] = []int{1, 2, 3}[t.CfgDraw(3)]
	if k.CrossOps {
		k.W[OpDeletePayments] = []int{1, 1, 2}[t.CfgDraw(3)]
		k.W[OpFetchInFlight] = []int{1, 2, 3}[t.CfgDraw(3)]
	}
	k.Naughty = []int{1, 3, 6}[t.CfgDraw(3)]
	return k
}

// Gen produces operations. It looks at a model world only to aim (so that
// most calls are meaningful); it never decides what is correct.
type Gen struct {
	r      *simcore.Run
	k      Knobs
	uniq   int
	nextID uint64
	// every attempt id ever used per hash (disciplined mode: for naming
	// resolved / deleted attempts later)
	used [NHash][]uint64
}

func NewGen(r *simcore.Run, k Knobs) *Gen { return &Gen{r: r, k: k, nextID: 1} }

func (g *Gen) pickKind(avoid func(OpKind) bool) OpKind {
	total := 0
	for k, w := range g.k.W {
		if w > 0 && !(avoid != nil && avoid(OpKind(k))) {
			total += w
		}
	}
	if total == 0 {
		return OpFetch
	}
	x := g.r.Draw(total)
	for k, w := range g.k.W {
		if w == 0 || (avoid != nil && avoid(OpKind(k))) {
			continue
		}
		if x < w {
			return OpKind(k)
		}
		x -= w
	}
	return OpFetch
}

func pickI64(r *simcore.Run, l []int64) int64 { return l[r.Draw(len(l))] }

// Next draws the next op. avoid lets the caller exclude kinds (e.g. a second
// concurrent RegisterAttempt on a hash); busyReg[h] marks hashes with a
// RegisterAttempt in progress.
func (g *Gen) Next(w *World, busyReg *[NHash]bool) Op {
	r := g.r
	g.uniq++
	op := Op{Uniq: g.uniq}
	op.H = r.Draw(g.k.NHash)
	op.Kind = g.pickKind(func(k OpKind) bool {
		return k == OpRegister && busyReg != nil && busyReg[op.H]
	})
	p := w.P[op.H]
	// Aim: keep most calls meaningful (the unaimed remainder still covers
	// calls on unknown payments and on payments without attempts).
	regBusy := busyReg != nil && busyReg[op.H]
	if op.SingleHash() {
		switch {
		case p == nil && op.Kind != OpInit:
			if r.Draw(8) < 6 {
				op.Kind = OpInit
			}
		case p != nil && (op.Kind == OpSettle || op.Kind == OpFailAttempt) && len(p.Atts) == 0 && !regBusy:
			if r.Draw(8) < 6 {
				op.Kind = OpRegister
			}
		case p != nil && op.Kind == OpInit && DocumentedStatus(p.Atts, p.Reason) != StFailed && !regBusy:
			if r.Draw(8) < 4 {
				op.Kind = OpRegister
			}
		}
	}
	switch op.Kind {
	case OpInit:
		op.Value = pickI64(r, g.k.Values)

	case OpRegister:
		op.Att = g.genAttempt(w, op.H)

	case OpSettle, OpFailAttempt:
		op.ID = g.pickAttemptID(w, op.H)
		if op.Kind == OpFailAttempt {
			op.Reason = r.Draw(4)
		}

	case OpFail:
		op.Reason = r.Draw(6)

	case OpDeletePayment:
		op.AttemptsOnly = r.Draw(3) == 2

	case OpDeletePayments:
		op.FailedOnly = r.Draw(2) == 1
		op.AttemptsOnly = r.Draw(3) == 2
	}
	_ = p
	return op
}

func (g *Gen) genAttempt(w *World, h int) AttSpec {
	r := g.r
	p := w.P[h]
	var value, sent int64 = g.k.Values[0], 0
	if p != nil {
		value, sent = p.Value, SentAmt(p.Atts)
	}
	remaining := value - sent
	if remaining < 0 {
		remaining = 0
	}
	a := AttSpec{}
	// attempt id
	if g.k.WildIDs {
		a.ID = uint64(1 + r.Draw(5))
	} else {
		a.ID = g.nextID
		g.nextID++
	}
	g.noteID(h, a.ID)
	// flavour
	a.Kind = g.k.PrefKind[h]
	if r.Draw(16) < g.k.Naughty {
		a.Kind = AttKind(r.Draw(3))
	}
	// amount: up to and beyond the remainder
	cands := []int64{remaining, (remaining + 1) / 2, (remaining + 1) / 2, (remaining + 3) / 4, (remaining + 3) / 4, remaining + 1, value + 1, 1}
	if a.Kind == AttSingle {
		cands = []int64{value, value, value, remaining, value + 1, (value + 1) / 2}
	}
	a.Amt = cands[r.Draw(len(cands))]
	if a.Amt <= 0 {
		a.Amt = 1
	}
	naughty := func() bool { return r.Draw(16) < g.k.Naughty }
	switch a.Kind {
	case AttMPP:
		a.HasMPP, a.MPPTotal, a.MPPAddr = true, value, 0x42
		if naughty() {
			a.MPPTotal = value + 1
		}
		if naughty() {
			a.MPPAddr = 0x43
		}
	case AttBlinded:
		a.BlindTotal = value
		if naughty() {
			a.BlindTotal = []int64{value + 7, 0}[r.Draw(2)]
		}
		if naughty() {
			a.HasMPP, a.MPPTotal, a.MPPAddr = true, value, 0x42
		}
	}
	return a
}

func (g *Gen) noteID(h int, id uint64) {
	for _, x := range g.used[h] {
		if x == id {
			return
		}
	}
	g.used[h] = append(g.used[h], id)
	sort.Slice(g.used[h], func(i, j int) bool { return g.used[h][i] < g.used[h][j] })
}

// pickAttemptID names an attempt for SettleAttempt / FailAttempt: mostly an
// in-flight attempt of the payment, sometimes a resolved one, one that was
// deleted with its payment, one that never existed, and (wild mode) one that
// belongs to another hash.
func (g *Gen) pickAttemptID(w *World, h int) uint64 {
	r := g.r
	p := w.P[h]
	var inflight, all []uint64
	if p != nil {
		for _, a := range p.Atts {
			all = append(all, a.ID)
			if a.State == AInFlight {
				inflight = append(inflight, a.ID)
			}
		}
	}
	mode := r.Draw(16)
	switch {
	case mode < 11 && len(inflight) > 0:
		return inflight[r.Draw(len(inflight))]
	case mode < 13 && len(all) > 0:
		return all[r.Draw(len(all))]
	case mode < 15 && len(g.used[h]) > 0:
		return g.used[h][r.Draw(len(g.used[h]))]
	}
	if g.k.WildIDs {
		// any id of the shared pool, possibly one registered under another hash
		return uint64(1 + r.Draw(5))
	}
	if len(inflight) > 0 && mode < 15 {
		return inflight[r.Draw(len(inflight))]
	}
	return 900 + uint64(r.Draw(3)) // never registered anywhere
}
