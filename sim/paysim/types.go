// Package paysim is the deterministic simulation engine for property C16:
// "an outgoing payment is never paid twice nor beyond its amount; the reported
// status is truthful; the KV and SQL payment stores answer identical histories
// identically".
//
// The code under test is lnd's payments/db package (KVStore on a SimKV bbolt
// file, SQLStore on a sqlite file behind a scheduling/fault wrapper of the
// BatchedTx executor). The simulator owns: the operation sequence, the
// interleaving of 2-4 concurrent clients (released one at a time at every
// transaction entry and at call return), restarts, injected write failures and
// crashes around a transaction. Oracles: a sequential reference model written
// from payments/db/interface.go, errors.go and the status truth table in the
// doc comment of decidePaymentStatus; porcupine for concurrent histories;
// model-independent invariants on every returned MPPayment and on every
// observed state transition; KV == SQL on the same sequential history.
package paysim

import (
	"fmt"
	"sort"
	"strings"
)

// NHash is the number of payment hashes a run works with.
const NHash = 3

// OpKind enumerates the paymentsdb.DB methods the simulator calls.
type OpKind int

const (
	OpInit OpKind = iota
	OpRegister
	OpSettle
	OpFailAttempt
	OpFail
	OpDeletePayment
	OpDeleteFailedAttempts
	OpDeletePayments
	OpFetch
	OpFetchInFlight
)

var opNames = [...]string{"Init", "Register", "Settle", "FailAttempt", "Fail",
	"DeletePayment", "DeleteFailedAttempts", "DeletePayments", "Fetch", "FetchInFlight"}

func (k OpKind) String() string { return opNames[k] }

// AttKind is the shape of the final hop of an attempt's route.
type AttKind int

const (
	AttMPP     AttKind = iota // final hop carries an MPP record
	AttSingle                 // no MPP record, not blinded ("single shot")
	AttBlinded                // final hop carries encrypted data + total amount
)

func (k AttKind) String() string { return [...]string{"mpp", "single", "blinded"}[k] }

// AttSpec describes an attempt to register.
type AttSpec struct {
	ID   uint64
	Amt  int64 // receiver amount (msat)
	Kind AttKind
	// MPP record (Kind==AttMPP, or a blinded attempt that wrongly carries one).
	HasMPP   bool
	MPPTotal int64
	MPPAddr  byte
	// Blinded total amount (Kind==AttBlinded).
	BlindTotal int64
}

func (a AttSpec) String() string {
	s := fmt.Sprintf("id=%d amt=%d %s", a.ID, a.Amt, a.Kind)
	if a.HasMPP {
		s += fmt.Sprintf(" mpp(total=%d,addr=%02x)", a.MPPTotal, a.MPPAddr)
	}
	if a.Kind == AttBlinded {
		s += fmt.Sprintf(" blindedTotal=%d", a.BlindTotal)
	}
	return s
}

// Op is one call on the store. Uniq is unique per op within a run and seeds
// every value the op writes (timestamps, preimage), so that each write is
// distinguishable in later reads.
type Op struct {
	Kind         OpKind
	H            int   // hash index (single-hash ops)
	Value        int64 // Init
	Att          AttSpec
	ID           uint64 // Settle / FailAttempt
	Reason       int    // Fail: FailureReason; FailAttempt: HTLCFailReason
	FailedOnly   bool   // DeletePayments
	AttemptsOnly bool   // DeletePayment / DeletePayments
	Uniq         int
}

// SingleHash reports whether the op names exactly one payment hash.
func (o Op) SingleHash() bool { return o.Kind != OpDeletePayments && o.Kind != OpFetchInFlight }

func (o Op) String() string {
	switch o.Kind {
	case OpInit:
		return fmt.Sprintf("InitPayment(h%d, value=%d) #%d", o.H, o.Value, o.Uniq)
	case OpRegister:
		return fmt.Sprintf("RegisterAttempt(h%d, %s) #%d", o.H, o.Att, o.Uniq)
	case OpSettle:
		return fmt.Sprintf("SettleAttempt(h%d, id=%d) #%d", o.H, o.ID, o.Uniq)
	case OpFailAttempt:
		return fmt.Sprintf("FailAttempt(h%d, id=%d, reason=%d) #%d", o.H, o.ID, o.Reason, o.Uniq)
	case OpFail:
		return fmt.Sprintf("Fail(h%d, reason=%d) #%d", o.H, o.Reason, o.Uniq)
	case OpDeletePayment:
		return fmt.Sprintf("DeletePayment(h%d, failedAttemptsOnly=%v) #%d", o.H, o.AttemptsOnly, o.Uniq)
	case OpDeleteFailedAttempts:
		return fmt.Sprintf("DeleteFailedAttempts(h%d) #%d", o.H, o.Uniq)
	case OpDeletePayments:
		return fmt.Sprintf("DeletePayments(failedOnly=%v, failedAttemptsOnly=%v) #%d", o.FailedOnly, o.AttemptsOnly, o.Uniq)
	case OpFetch:
		return fmt.Sprintf("FetchPayment(h%d) #%d", o.H, o.Uniq)
	case OpFetchInFlight:
		return fmt.Sprintf("FetchInFlightPayments() #%d", o.Uniq)
	}
	return "?"
}

// Status values as documented in payment_status.go.
const (
	StInitiated = 1
	StInFlight  = 2
	StSucceeded = 3
	StFailed    = 4
)

func stName(s int) string {
	switch s {
	case StInitiated:
		return "Initiated"
	case StInFlight:
		return "InFlight"
	case StSucceeded:
		return "Succeeded"
	case StFailed:
		return "Failed"
	}
	return fmt.Sprintf("Unknown(%d)", s)
}

// Attempt states.
const (
	AInFlight = 0
	ASettled  = 1
	AFailed   = 2
)

// PAtt is the projection of one HTLC attempt as read back from a store (or as
// held by the reference model).
type PAtt struct {
	ID         uint64
	Amt        int64
	Blinded    bool
	BlindTotal int64
	HasMPP     bool
	MPPTotal   int64
	MPPAddr    byte
	AttemptAt  int64 // unix seconds
	State      int
	Preimage   byte  // first byte of settle preimage (unique per settle op mod 251)
	PreimageN  int   // bytes 1..4 of the preimage (op uniq)
	ResolvedAt int64 // settle / fail time
	FailReason int   // HTLCFailReason
}

// Proj is the projection of an MPPayment: everything the property talks
// about, nothing backend specific (sequence numbers, slice order, time zone).
type Proj struct {
	H         int
	Value     int64
	CreatedAt int64
	Status    int
	Reason    int    // -1 = none
	Atts      []PAtt // sorted by ID
	// MPPaymentState as reported.
	NumInFlight   int
	Remaining     int64
	HasSettled    bool
	PaymentFailed bool
}

// Key is a canonical rendering. State.PaymentFailed is rendered only when no
// attempt is settled: its documentation ("true if the payment has been marked
// as failed with a reason") and TerminalInfo disagree when a settled attempt
// and a failure reason coexist, and C16 does not speak about it.
func (p *Proj) Key() string {
	if p == nil {
		return "<nil>"
	}
	var b strings.Builder
	fmt.Fprintf(&b, "h%d value=%d created=%d status=%s reason=%d", p.H, p.Value, p.CreatedAt, stName(p.Status), p.Reason)
	fmt.Fprintf(&b, " state{inflight=%d remaining=%d settled=%v", p.NumInFlight, p.Remaining, p.HasSettled)
	if !p.HasSettled {
		fmt.Fprintf(&b, " failed=%v", p.PaymentFailed)
	}
	b.WriteString("}")
	for _, a := range p.Atts {
		fmt.Fprintf(&b, " [id=%d amt=%d", a.ID, a.Amt)
		if a.Blinded {
			fmt.Fprintf(&b, " blinded(total=%d)", a.BlindTotal)
		}
		if a.HasMPP {
			fmt.Fprintf(&b, " mpp(total=%d,addr=%02x)", a.MPPTotal, a.MPPAddr)
		}
		fmt.Fprintf(&b, " at=%d", a.AttemptAt)
		switch a.State {
		case AInFlight:
			b.WriteString(" inflight")
		case ASettled:
			fmt.Fprintf(&b, " settled(pre=%02x/%d at=%d)", a.Preimage, a.PreimageN, a.ResolvedAt)
		case AFailed:
			fmt.Fprintf(&b, " failed(reason=%d at=%d)", a.FailReason, a.ResolvedAt)
		}
		b.WriteString("]")
	}
	return b.String()
}

// Res is what a call returned.
type Res struct {
	Err  string // "" = success; otherwise an error class (sentinel name, "other", "injected")
	Msg  string // error text (diagnostics only, never compared, never hashed)
	Pay  *Proj  // Register / Settle / FailAttempt / Fail / Fetch
	List []*Proj
	N    int // DeletePayments
	// MaybeApplied is set by the harness when an injected crash hit AFTER the
	// transaction committed: the caller saw an error, the write is durable.
	MaybeApplied bool
	// Raw carries problems found while projecting the returned payment
	// (invariant violations inside one MPPayment). Checked by the caller.
	Raw []string
}

func (r Res) OK() bool { return r.Err == "" }

// Key is the canonical rendering used for comparisons between backends.
func (r Res) Key(withClass bool) string {
	var b strings.Builder
	if r.Err != "" {
		if withClass {
			return "ERR:" + r.Err
		}
		return "ERR"
	}
	b.WriteString("OK")
	if r.Pay != nil {
		b.WriteString(" " + r.Pay.Key())
	}
	if r.List != nil {
		l := append([]*Proj(nil), r.List...)
		sort.Slice(l, func(i, j int) bool { return l[i].H < l[j].H })
		for _, p := range l {
			b.WriteString(" {" + p.Key() + "}")
		}
	}
	if r.N != 0 {
		fmt.Fprintf(&b, " n=%d", r.N)
	}
	return b.String()
}

func (r Res) String() string {
	if r.Err != "" {
		return "error[" + r.Err + "]"
	}
	return r.Key(true)
}
