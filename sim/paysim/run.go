package paysim

import (
	"verif/simcore"
)

// arm is one swarm arm. Weights reflect cost: a KV run is ~30x cheaper than a
// SQL run, and the quick tier has to fit ~60-90 s on 16 workers.
type arm struct {
	name   string
	weight int
	run    func(r *simcore.Run, thorough bool)
}

func steps(r *simcore.Run, thorough bool) int {
	n := 20 + 10*r.Tape.CfgDraw(4)
	if thorough {
		n += 10 * r.Tape.CfgDraw(4)
	}
	return n
}

// Arms lists the swarm arms. Arm 0 is the simplest one (a shrunk
// configuration falls back to it).
var Arms = []arm{
	{"kv/seq", 18, func(r *simcore.Run, th bool) {
		RunSeq(r, Mode{Backends: []string{"kv"}, MaxSteps: steps(r, th)})
	}},
	{"kv/conc", 26, func(r *simcore.Run, th bool) { RunConc(r, "kv", false, steps(r, th)) }},
	{"kv/faulty", 16, func(r *simcore.Run, th bool) {
		RunSeq(r, Mode{Backends: []string{"kv"}, Faults: true, MaxSteps: steps(r, th)})
	}},
	{"kv/conc-restart", 10, func(r *simcore.Run, th bool) { RunConc(r, "kv", true, steps(r, th)) }},
	{"sql/seq", 2, func(r *simcore.Run, th bool) {
		RunSeq(r, Mode{Backends: []string{"sql"}, MaxSteps: steps(r, th)})
	}},
	{"sql/conc", 3, func(r *simcore.Run, th bool) { RunConc(r, "sql", false, steps(r, th)) }},
	{"sql/faulty", 2, func(r *simcore.Run, th bool) {
		RunSeq(r, Mode{Backends: []string{"sql"}, Faults: true, MaxSteps: steps(r, th)})
	}},
	{"sql/conc-restart", 1, func(r *simcore.Run, th bool) { RunConc(r, "sql", true, steps(r, th)) }},
	{"diff/seq", 5, func(r *simcore.Run, th bool) {
		RunSeq(r, Mode{Backends: []string{"kv", "sql"}, MaxSteps: steps(r, th)})
	}},
	// The attempt-id contract ("AttemptID is the unique ID used for this
	// attempt") is broken on purpose: ids from a pool of five shared by all
	// hashes, re-registered, named under the wrong hash.
	{"kv/wild-ids", 3, func(r *simcore.Run, th bool) {
		RunSeq(r, Mode{Backends: []string{"kv"}, Wild: true, MaxSteps: steps(r, th)})
	}},
	{"sql/wild-ids", 1, func(r *simcore.Run, th bool) {
		RunSeq(r, Mode{Backends: []string{"sql"}, Wild: true, MaxSteps: steps(r, th)})
	}},
	{"diff/wild-ids", 1, func(r *simcore.Run, th bool) {
		RunSeq(r, Mode{Backends: []string{"kv", "sql"}, Wild: true, MaxSteps: steps(r, th)})
	}},
}

// Run is one simulated execution of C16. only (VERIF_ARM) pins an arm by
// name for experiments.
func Run(r *simcore.Run, thorough bool, only string) {
	total := 0
	for _, a := range Arms {
		total += a.weight
	}
	x := r.Tape.CfgDraw(total)
	pick := Arms[0]
	for _, a := range Arms {
		if x < a.weight {
			pick = a
			break
		}
		x -= a.weight
	}
	if only != "" {
		found := false
		for _, a := range Arms {
			if a.name == only {
				pick, found = a, true
			}
		}
		if !found {
			r.Harness("unknown VERIF_ARM %q", only)
		}
	}
	r.Arm = pick.name
	pick.run(r, thorough)
}
