package paysim

import (
	"fmt"
	"runtime"
	"runtime/debug"
	"sort"
	"strings"
	"time"

	"github.com/anishathalye/porcupine"

	"verif/simcore"
)

// ---------------------------------------------------------------------------
// Concurrent clients. Every client is a real goroutine; exactly one of them
// (or the scheduler) runs at any time. A client parks at the entry of every
// database transaction and hands control back when its call returns; which
// client moves next is the tape's decision.
// ---------------------------------------------------------------------------

type evKind int

const (
	evParked evKind = iota
	evDone
)

type event struct {
	client int
	kind   evKind
	res    Res
}

type client struct {
	id     int
	start  chan Op
	resume chan struct{}
	busy   bool
	parked bool
	op     Op
	call   int64
}

type concSim struct {
	r      *simcore.Run
	k      Knobs
	gen    *Gen
	b      Backend
	cs     []*client
	events chan event
	cur    *client // the client currently allowed to run (nil: scheduler)
	abort  bool
	clock  int64
	hist   []porcupine.Operation
	shadow *World // generator aim only
	// statistics
	overlapSameHash      bool
	faults, okAfterFault int
	started              int
}

// hook is installed as the backend's transaction-entry yield point.
func (s *concSim) hook() {
	c := s.cur
	if c == nil {
		return // the scheduler itself is using the store
	}
	s.events <- event{client: c.id, kind: evParked}
	<-c.resume
	if s.abort {
		runtime.Goexit()
	}
}

func (s *concSim) clientLoop(c *client) {
	for op := range c.start {
		s.events <- event{client: c.id, kind: evDone, res: s.safeExec(op)}
	}
}

// safeExec turns a panic inside the store into a result the scheduler can
// report (a panic on a client goroutine would otherwise kill the worker).
func (s *concSim) safeExec(op Op) (res Res) {
	defer func() {
		if p := recover(); p != nil {
			res = Res{Err: "panic", Msg: fmt.Sprintf("%v\n%s", p, debug.Stack())}
		}
	}()
	return Exec(s.b.DB(), op)
}

// release lets client c run until it parks again or its call returns.
func (s *concSim) release(c *client, op *Op) {
	s.cur = c
	if op != nil {
		c.start <- *op
	} else {
		c.resume <- struct{}{}
	}
	ev := <-s.events
	s.cur = nil
	if ev.client != c.id {
		s.r.Harness("event from client %d while client %d was running", ev.client, c.id)
	}
	switch ev.kind {
	case evParked:
		c.parked = true
	case evDone:
		s.complete(c, ev.res)
	}
}

func (s *concSim) complete(c *client, res Res) {
	r := s.r
	c.busy, c.parked = false, false
	s.clock++
	if res.Err == "panic" {
		r.Fail("PANIC", "%s: %s panicked: %s", s.b.Name(), c.op, res.Msg)
	}
	for _, bad := range res.Raw {
		code := bad
		if i := strings.Index(bad, ":"); i > 0 {
			code = bad[:i]
		}
		r.Fail(code, "%s: %s returned a payment that breaks an invariant: %s", s.b.Name(), c.op, bad)
	}
	if fired := s.b.Fired(); fired != "" {
		r.Harness("unexpected fault %s in the concurrent arm", fired)
	}
	s.hist = append(s.hist, porcupine.Operation{ClientId: c.id, Input: c.op, Call: c.call, Output: res, Return: s.clock})
	r.Logf("c%d  ret  %s -> %s", c.id, c.op, res)
	// advance the generator's aim (not an oracle)
	if res.OK() {
		if v := Judge(s.shadow, c.op); len(v.refuse) == 0 && len(v.next) > 0 {
			s.shadow = v.next[0]
		}
		if s.faults > 0 && c.op.Kind != OpFetch && c.op.Kind != OpFetchInFlight {
			s.okAfterFault++
		}
	}
}

// RunConc is one concurrent execution on one backend.
func RunConc(r *simcore.Run, backend string, faults bool, maxOps int) {
	t := r.Tape
	nClients := 2 + t.CfgDraw(3)
	crossCfg := 2
	k := DrawKnobs(t, false, crossCfg)
	if k.CrossOps && maxOps > 25 {
		maxOps = 25 // unpartitioned histories stay small
	}
	s := &concSim{r: r, k: k, gen: NewGen(r, k), events: make(chan event), shadow: EmptyWorld()}
	s.b = openBackend(r, backend)
	s.b.SetYield(s.hook)
	for i := 0; i < nClients; i++ {
		c := &client{id: i, start: make(chan Op), resume: make(chan struct{})}
		s.cs = append(s.cs, c)
		go s.clientLoop(c)
	}
	r.Cleanup(func() {
		// Release whatever is still parked (only after a violation): the
		// goroutines exit at their yield point, where they hold no lock.
		s.abort = true
		for _, c := range s.cs {
			if c.parked {
				close(c.resume)
			}
			if !c.busy {
				close(c.start)
			}
		}
	})
	r.Logf("config: backend=%s clients=%d faults=%v knobs=%+v", backend, nClients, faults, k)

	for s.started < maxOps && r.Step() {
		var idle, parked []*client
		for _, c := range s.cs {
			switch {
			case !c.busy:
				idle = append(idle, c)
			case c.parked:
				parked = append(parked, c)
			}
		}
		// choices: start an op on an idle client, resume a parked one, restart
		nChoices := len(idle) + len(parked)
		if nChoices == 0 {
			r.Harness("no client can move")
		}
		if faults && s.faults < 3 && r.Draw(20) == 19 {
			r.Kind("restart")
			s.restart()
			continue
		}
		x := r.Draw(nChoices)
		if x < len(idle) {
			c := idle[x]
			var busyReg [NHash]bool
			for _, o := range s.cs {
				if o.busy && o.op.Kind == OpRegister {
					// interface.go: callers MUST serialize RegisterAttempt per payment hash
					busyReg[o.op.H] = true
				}
			}
			op := s.gen.Next(s.shadow, &busyReg)
			r.Kind(fmt.Sprintf("call:c%d:%s", c.id, op.Kind))
			for _, o := range s.cs {
				if o.busy && o.op.SingleHash() && op.SingleHash() && o.op.H == op.H {
					s.overlapSameHash = true
					r.Count("probe_calls_overlap_same_hash")
				}
			}
			s.clock++
			c.busy, c.op, c.call = true, op, s.clock
			s.started++
			r.Logf("c%d  call %s", c.id, op)
			s.release(c, &op)
		} else {
			c := parked[x-len(idle)]
			r.Kind(fmt.Sprintf("run:c%d", c.id))
			c.parked = false
			s.release(c, nil)
		}
		s.noteState()
	}
	s.drain()

	// Final reads by a single client pin the end state into the history.
	for h := 0; h < NHash; h++ {
		s.gen.uniq++
		op := Op{Kind: OpFetch, H: h, Uniq: s.gen.uniq}
		s.clock++
		call := s.clock
		res := Exec(s.b.DB(), op)
		for _, bad := range res.Raw {
			r.Fail(strings.SplitN(bad, ":", 2)[0], "%s: final %s: %s", s.b.Name(), op, bad)
		}
		s.clock++
		s.hist = append(s.hist, porcupine.Operation{ClientId: len(s.cs), Input: op, Call: call, Output: res, Return: s.clock})
		r.Logf("final %s -> %s", op, res)
	}
	s.checkLinearizable()
	for _, c := range s.cs {
		close(c.start)
		c.busy = true // nothing left for Cleanup to close
	}
	if faults {
		r.Nontrivial = s.faults > 0 && s.okAfterFault > 0 && s.overlapSameHash
	} else {
		r.Nontrivial = s.overlapSameHash
	}
}

// drain lets every in-progress call finish (lowest client id first).
func (s *concSim) drain() {
	for {
		var c *client
		for _, x := range s.cs {
			if x.busy && x.parked {
				c = x
				break
			}
		}
		if c == nil {
			break
		}
		c.parked = false
		s.release(c, nil)
	}
	for _, x := range s.cs {
		if x.busy {
			s.r.Harness("client %d still busy after drain", x.id)
		}
	}
}

// restart: the node dies with calls in progress. Their transactions never
// run (they fail at entry); then the store is reopened.
func (s *concSim) restart() {
	r := s.r
	n := 0
	for _, c := range s.cs {
		if c.busy {
			n++
		}
	}
	s.b.Fence()
	s.drain()
	r.Must(s.b.Restart(), "restart")
	s.faults++
	r.Count("fault_restart")
	if n > 0 {
		r.Count("fault_restart_with_calls_in_progress")
	}
	r.Logf("restart with %d calls in progress", n)
}

func (s *concSim) noteState() {
	var b strings.Builder
	for _, c := range s.cs {
		switch {
		case !c.busy:
			b.WriteString("idle;")
		default:
			fmt.Fprintf(&b, "%s@h%d;", c.op.Kind, c.op.H)
		}
	}
	s.r.State(b.String())
}

// ---------------------------------------------------------------------------
// Linearizability against the reference model.
// ---------------------------------------------------------------------------

func porcupineModel(partition bool) porcupine.Model {
	nm := porcupine.NondeterministicModel{
		Init: func() []interface{} { return []interface{}{EmptyWorld()} },
		Step: func(st, in, out interface{}) []interface{} {
			next, _ := Step(st.(*World), in.(Op), out.(Res))
			o := make([]interface{}, len(next))
			for i, n := range next {
				o[i] = n
			}
			return o
		},
		Equal: func(a, b interface{}) bool { return a.(*World).Key() == b.(*World).Key() },
		Hash:  func(a interface{}) uint64 { return a.(*World).Hash() },
		DescribeOperation: func(in, out interface{}) string {
			return fmt.Sprintf("%s -> %s", in.(Op), out.(Res))
		},
	}
	if partition {
		nm.Partition = func(h []porcupine.Operation) [][]porcupine.Operation {
			var parts [NHash][]porcupine.Operation
			for _, o := range h {
				i := o.Input.(Op).H
				parts[i] = append(parts[i], o)
			}
			var out [][]porcupine.Operation
			for _, p := range parts {
				if len(p) > 0 {
					out = append(out, p)
				}
			}
			return out
		}
	}
	return nm.ToModel()
}

func (s *concSim) checkLinearizable() {
	r := s.r
	single := true
	for _, o := range s.hist {
		if !o.Input.(Op).SingleHash() {
			single = false
		}
	}
	if single {
		r.Count("lin_partitioned")
	} else {
		r.Count("lin_unpartitioned")
	}
	res, _ := porcupine.CheckOperationsVerbose(porcupineModel(single), s.hist, 30*time.Second)
	switch res {
	case porcupine.Ok:
		r.Count("lin_ok")
	case porcupine.Unknown:
		// counted, never reported, and kept out of the event trace
		r.Count("lin_unknown_timeout")
	case porcupine.Illegal:
		r.Fail("nonlinearizable", "no sequential order of the %d calls, consistent with their real-time order, is allowed by the reference model:\n%s\n%s",
			len(s.hist), s.explain(single), s.renderHistory())
	}
}

// explain replays the history in completion order to name the first call
// the model cannot follow (a hint only; the verdict is porcupine's).
func (s *concSim) explain(single bool) string {
	h := append([]porcupine.Operation(nil), s.hist...)
	sort.SliceStable(h, func(i, j int) bool { return h[i].Return < h[j].Return })
	states := []*World{EmptyWorld()}
	for _, o := range h {
		var next []*World
		var last *Reject
		for _, st := range states {
			n, rej := Step(st, o.Input.(Op), o.Output.(Res))
			if rej != nil {
				last = rej
			}
			next = append(next, n...)
		}
		if len(next) == 0 {
			if last != nil {
				return fmt.Sprintf("in completion order the first call the model cannot follow: [%s] %s", last.Code, last.Msg)
			}
			return "in completion order the model gets stuck at " + o.Input.(Op).String()
		}
		states = next
	}
	return "the completion order itself is acceptable to the model; the violation is a real-time ordering one"
}

func (s *concSim) renderHistory() string {
	var b strings.Builder
	for _, o := range s.hist {
		fmt.Fprintf(&b, "   c%d [%d,%d] %s -> %s\n", o.ClientId, o.Call, o.Return, o.Input.(Op), o.Output.(Res))
	}
	return b.String()
}
