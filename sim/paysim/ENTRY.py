# Table / manifest entries for property C16 (engine paysim). Same dict shapes as
# the C01 entries in /verif/checks_table.py (CHECK) and /verif/manifest_text.py
# (TEXT); ENGINE goes into checks_table.ENGINES; KNOWN_FINDINGS are proposed
# entries for /verif/known_findings.json (see the final report: lnd deviates
# from C16 only for callers that reuse attempt ids, which the HTLCAttemptInfo
# doc forbids; you decide between "known finding" and a fix).

PAYSIM_STUB = {
    "paymentsdb.KVStore, paymentsdb.SQLStore (payments/db: kv_store.go, sql_store.go, payment.go, payment_status.go, sql_converters.go, codec.go)": "real",
    "kvdb + bbolt": "real bbolt file on tmpfs behind simcore.SimKV (crash / failed write at transaction granularity; kvdb.Batch degrades to Update)",
    "sqldb + sqlite (modernc) + sqlc queries + lnd's SQL migrations": "real; one migrated empty database image is built per worker process and copied per run",
    "sqldb.TransactionExecutor": "real, wrapped at ExecTx: scheduling yield at transaction entry, injected failure before / crash after the transaction",
    "routes, onion blobs, session keys of attempts": "real (paymentsdb.NewHtlcAttempt, one-hop routes; MPP record / none / blinded final hop)",
    "router, payment lifecycle, control tower (per-hash mutex, subscribers), switch": "not simulated: the engine IS the caller and issues every call order the paymentsdb.DB interface allows",
    "postgres, etcd, KV->SQL payment migration, QueryPayments, legacy duplicate payments, AMP records, custom records": "not exercised",
}
PAYSIM_ASSUME = [
    "bbolt and sqlite transaction atomicity/durability are trusted; crash granularity is one database transaction",
    "RegisterAttempt calls are serialized per payment hash (documented precondition of PaymentControl); every other pair of calls may overlap",
    "attempt ids are unique (doc of HTLCAttemptInfo.AttemptID) in every arm except the three *wild-ids arms, which break that contract on purpose",
    "KVStore's sequence-block transaction is executed by the simulator right after every (re)open (it holds a Go mutex across a database transaction, which a cooperative scheduler cannot interleave)",
    "the reference model (model.go, about 600 lines incl. the sentinel truthfulness table) is written from interface.go, errors.go and the truth table in payment_status.go; where those leave a case open (second Fail overwriting the reason, MPP/blinded mismatch against already failed attempts, Initiated payments in FetchInFlightPayments, State.PaymentFailed next to a settled HTLC, which sentinel a refusal carries) either answer is accepted",
    "a clean batch is evidence, not proof: histories and schedules are sampled from a seeded PRNG",
]

CHECK = {
    "C16": dict(
        bin="run_paysim", build="external", pkg="run_paysim", level="exploration",
        quick=dict(runs=8000, wall=80), thorough=dict(runs=120000, wall=1200),
        rule="one evaluation = one seeded history of 20-50 (thorough: up to 80) calls on the real payment store(s): "
             "InitPayment / RegisterAttempt (MPP, single-shot, blinded; fitting, exceeding and mismatching) / SettleAttempt / FailAttempt / Fail / DeletePayment(s) / DeleteFailedAttempts / FetchPayment / FetchInFlightPayments over <=3 hashes, "
             "either sequential (every answer and, after every call, the full store state compared with the reference model; per-payment and transition invariants; admitted-attempt ledger; KV vs SQL on the same history) "
             "or issued by 2-4 concurrent clients released one at a time at every transaction entry and call return (history checked for linearizability with porcupine). "
             "Fault arms add restarts, failed writes and crashes before/after the commit. "
             "non-trivial = (sequential) an attempt was admitted AND a registration/re-initiation was refused on amount/terminal grounds; (concurrent) two calls on the same hash overlapped; (fault arms) additionally a fault fired and a later call succeeded; distinct = distinct event-trace hash",
        states_measure="sequential: per hash (status, #in-flight<=3, #settled<=2, #failed<=2, failure-reason set); concurrent: per client (idle | call kind @ hash)",
        expected_probes=["probe_overpay_refused", "probe_register_after_terminal_refused", "probe_reinit_refused", "probe_reinit_after_failed",
                         "probe_record_mismatch_refused", "probe_settle_after_payment_failed", "probe_delete_inflight_refused",
                         "probe_unknown_payment_refused", "probe_calls_overlap_same_hash", "probe_open_case_admitted",
                         "fault_restart", "fault_restart_with_calls_in_progress", "fault_fail", "fault_crash_before", "fault_crash_after",
                         "lin_partitioned", "lin_unpartitioned"],
        real_vs_stub=PAYSIM_STUB, assumptions=PAYSIM_ASSUME,
        determinism="fully deterministic: call-driven; concurrent clients are goroutines parked on channels, exactly one runs at a time; "
                    "self-test 3 seeds x 2 processes x GOMAXPROCS 1/16: identical trace hashes and counters",
    ),
}

ENGINE = {"name": "paysim", "path": "/verif/sim/paysim", "serves_properties": ["C16"],
          "kind_free_text": "real paymentsdb KVStore (SimKV/bbolt) and SQLStore (sqlite behind a scheduling + fault wrapper of the transaction executor); "
                            "tape-driven call histories, cooperative scheduler for 2-4 concurrent clients, reference model from interface.go/errors.go/status truth table, porcupine, KV-vs-SQL differential"}

TEXT = {
    "C16": dict(engine="paysim", design_ref="DESIGN.md 5 C16",
                technique="deterministic simulation: seeded call histories (sequential, concurrent with a cooperative scheduler, with restarts / failed writes / crashes around the commit) against a sequential reference model, porcupine linearizability, KV-vs-SQL differential",
                level_text="Seeded exploration of call histories on the real payment stores (KV on bbolt, SQL on sqlite). Sequential arms compare every answer and, after every call, the complete stored state of all hashes with a reference model written from interface.go, errors.go and the documented status truth table; independently of the model they check on every returned MPPayment that settled+in-flight <= amount, that the status is the documented function of (attempts, failure reason), that a payment with a settled attempt is never reported failed, and on every observed transition that a succeeded payment never changes, a failed one changes only through InitPayment, that InitPayment is admitted only for unknown/failed payments and RegisterAttempt only while nothing settled, no failure reason is recorded and the amount fits; a ledger of admitted-and-never-failed attempts must stay within the amount. The differential arm runs one history on both stores and demands equal accept/refuse decisions, equal returned payments and equal resulting states. Concurrent arms run 2-4 clients (RegisterAttempt serialized per hash as documented, everything else overlapping) that the scheduler releases one at a time at each transaction entry; the recorded history must be linearizable with respect to the model (porcupine, partitioned per hash when possible, <=25 calls otherwise). Fault arms: restart (state must equal everything acknowledged), failed write and crash-before-commit (call must fail, state unchanged), crash-after-commit (state must be the old or the new one, never anything else), restart with calls in progress. Exploration is the right level: the history space is unbounded and every oracle is scenario independent.",
                level_note="Trusted: bbolt/sqlite transaction atomicity; the reference model; one-hop routes. Which sentinel error a refusal carries is judged only one-sidedly (a documented sentinel must describe the state it is returned in); KV and SQL do differ there (e.g. resolving an already resolved attempt: ErrAttemptAlreadyFailed vs a raw UNIQUE-constraint error) and the counters note_errclass* report it. Not covered: QueryPayments, AMP, custom records, legacy duplicate payments, postgres, the KV->SQL migration, concurrent RegisterAttempt on one hash (excluded by the interface contract), the router layers above the store. Findings (open, all need a caller that reuses attempt ids): see KNOWN_FINDINGS in sim/paysim/ENTRY.py and sim/paysim/findings/."),
}

KNOWN_FINDINGS = [
    {"property": "C16", "code": "overpay-ledger", "sig": "wild-ids:after-dup-id", "status": "open",
     "what": "KVStore.RegisterAttempt admits an attempt id that is already registered for the payment and overwrites the stored attempt (a previously failed id makes the new HTLC count as failed at once): admitted, never-failed attempts can then exceed the payment amount. Needs a caller that reuses attempt ids. Replay: sim/paysim/findings/C16-kv-dup-id-overpay.json"},
    {"property": "C16", "code": "backend-diff", "sig": "wild-ids:dup-id", "status": "open",
     "what": "re-registering an attempt id of the same payment: KVStore admits (overwrites), SQLStore refuses (UNIQUE attempt_index). Replay: sim/paysim/findings/C16-diff-dup-id.json"},
    {"property": "C16", "code": "backend-diff", "sig": "wild-ids:id-used-by-other-payment", "status": "open",
     "what": "registering an attempt id that another payment uses: KVStore admits (ids live in the payment's bucket), SQLStore refuses (attempt_index is globally UNIQUE). Replay: sim/paysim/findings/C16-diff-id-used-by-other-payment.json"},
    {"property": "C16", "code": "backend-diff", "sig": "wild-ids:foreign-attempt", "status": "open",
     "what": "SettleAttempt/FailAttempt(hash A, id of an attempt of payment B): KVStore refuses, SQLStore resolves B's attempt (the resolution row is keyed by attempt_index only) and returns payment A. Replay: sim/paysim/findings/C16-diff-foreign-attempt.json"},
]
