package paysim

import (
	"fmt"
	"hash/fnv"
	"sort"
	"strings"
)

// ---------------------------------------------------------------------------
// Reference model. Written from payments/db/interface.go (method contracts),
// payments/db/errors.go (what each sentinel error means) and the 16-row truth
// table in the doc comment of decidePaymentStatus. It never looks at how the
// stores reach their answers.
// ---------------------------------------------------------------------------

// timeBase is added to Op.Uniq to form the timestamps an op writes.
const timeBase = 1_700_000_000

// MPay is the model's view of one payment. Immutable once part of a World.
type MPay struct {
	Value     int64
	CreatedAt int64
	Reason    int    // -1 = no failure reason recorded
	Atts      []PAtt // sorted by ID
}

// World is the model state: one optional payment per hash. Immutable.
type World struct {
	P   [NHash]*MPay
	key string
}

// EmptyWorld is the state of a freshly created store.
func EmptyWorld() *World { return (&World{}).seal() }

func (w *World) seal() *World {
	var b strings.Builder
	for h := 0; h < NHash; h++ {
		b.WriteString(ModelProj(h, w.P[h]).Key())
		b.WriteString(" | ")
	}
	w.key = b.String()
	return w
}

// Key is the canonical rendering of the state.
func (w *World) Key() string { return w.key }

// Hash is used by porcupine to cut down Equal calls.
func (w *World) Hash() uint64 { h := fnv.New64a(); h.Write([]byte(w.key)); return h.Sum64() }

func (w *World) with(h int, p *MPay) *World {
	n := &World{P: w.P}
	n.P[h] = p
	return n.seal()
}

func (p *MPay) clone() *MPay {
	n := *p
	n.Atts = append([]PAtt(nil), p.Atts...)
	return &n
}

func (p *MPay) find(id uint64) int {
	for i := range p.Atts {
		if p.Atts[i].ID == id {
			return i
		}
	}
	return -1
}

// statusTable is the documented truth table, row by row:
// | inflight | settled | htlc failed | payment failed | status |
var statusTable = map[[4]bool]int{
	{true, true, true, true}:     StInFlight,
	{true, true, true, false}:    StInFlight,
	{true, true, false, true}:    StInFlight,
	{true, true, false, false}:   StInFlight,
	{true, false, true, true}:    StInFlight,
	{true, false, true, false}:   StInFlight,
	{true, false, false, true}:   StInFlight,
	{true, false, false, false}:  StInFlight,
	{false, true, true, true}:    StSucceeded,
	{false, true, true, false}:   StSucceeded,
	{false, true, false, true}:   StSucceeded,
	{false, true, false, false}:  StSucceeded,
	{false, false, true, true}:   StFailed,
	{false, false, true, false}:  StInFlight,
	{false, false, false, true}:  StFailed,
	{false, false, false, false}: StInitiated,
}

// DocumentedStatus evaluates the truth table on (attempts, failure reason).
func DocumentedStatus(atts []PAtt, reason int) int {
	var k [4]bool
	for _, a := range atts {
		switch a.State {
		case AInFlight:
			k[0] = true
		case ASettled:
			k[1] = true
		case AFailed:
			k[2] = true
		}
	}
	k[3] = reason >= 0
	return statusTable[k]
}

// SentAmt is the amount potentially delivered: settled plus in-flight.
func SentAmt(atts []PAtt) int64 {
	var s int64
	for _, a := range atts {
		if a.State != AFailed {
			s += a.Amt
		}
	}
	return s
}

func anyState(atts []PAtt, st int) bool {
	for _, a := range atts {
		if a.State == st {
			return true
		}
	}
	return false
}

// ModelProj renders a model payment the way a store should report it.
func ModelProj(h int, p *MPay) *Proj {
	if p == nil {
		return nil
	}
	pr := &Proj{H: h, Value: p.Value, CreatedAt: p.CreatedAt, Reason: p.Reason,
		Atts: p.Atts, Status: DocumentedStatus(p.Atts, p.Reason)}
	for _, a := range p.Atts {
		if a.State == AInFlight {
			pr.NumInFlight++
		}
	}
	pr.Remaining = p.Value - SentAmt(p.Atts)
	pr.HasSettled = anyState(p.Atts, ASettled)
	pr.PaymentFailed = p.Reason >= 0
	return pr
}

// reason is one documented ground for refusing a call.
type reason struct {
	code   string   // violation class if the call is admitted nevertheless
	why    string   // human text
	expect []string // sentinel classes documented for this ground ("" = none documented)
}

// verdict is what the model says about a call in a state.
type verdict struct {
	refuse []reason // non-empty: the call must be refused
	open   bool     // the documentation leaves admit/refuse open
	next   []*World // successor states if admitted
}

func attFromSpec(op Op) PAtt {
	a := op.Att
	return PAtt{ID: a.ID, Amt: a.Amt, Blinded: a.Kind == AttBlinded, BlindTotal: blindTotalOf(a),
		HasMPP: a.HasMPP, MPPTotal: mppTotalOf(a), MPPAddr: mppAddrOf(a),
		AttemptAt: timeBase + int64(op.Uniq), State: AInFlight}
}

func blindTotalOf(a AttSpec) int64 {
	if a.Kind == AttBlinded {
		return a.BlindTotal
	}
	return 0
}
func mppTotalOf(a AttSpec) int64 {
	if a.HasMPP {
		return a.MPPTotal
	}
	return 0
}
func mppAddrOf(a AttSpec) byte {
	if a.HasMPP {
		return a.MPPAddr
	}
	return 0
}

// recordConflicts lists the documented MPP / blinded-path consistency rules
// (errors.go) that the new attempt breaks with respect to attempt o.
func recordConflicts(n, o PAtt) []string {
	var out []string
	if n.Blinded && o.HasMPP {
		out = append(out, "ErrMPPRecordInBlindedPayment")
	}
	if n.Blinded != o.Blinded {
		out = append(out, "ErrMixedBlindedAndNonBlindedPayments")
		return out
	}
	if n.Blinded {
		if n.BlindTotal != o.BlindTotal {
			out = append(out, "ErrBlindedPaymentTotalAmountMismatch")
		}
		return out
	}
	switch {
	case !n.HasMPP && o.HasMPP:
		out = append(out, "ErrMPPayment")
	case n.HasMPP && !o.HasMPP:
		out = append(out, "ErrNonMPPayment")
	case n.HasMPP && o.HasMPP:
		if n.MPPAddr != o.MPPAddr {
			out = append(out, "ErrMPPPaymentAddrMismatch")
		}
		if n.MPPTotal != o.MPPTotal {
			out = append(out, "ErrMPPTotalAmountMismatch")
		}
	}
	return out
}

// Judge is the sequential specification: what must happen to call op in w.
func Judge(w *World, op Op) verdict {
	var v verdict
	add := func(code, why string, expect ...string) {
		v.refuse = append(v.refuse, reason{code, why, expect})
	}
	var p *MPay
	if op.SingleHash() {
		p = w.P[op.H]
	}
	st := 0
	if p != nil {
		st = DocumentedStatus(p.Atts, p.Reason)
	}
	unknown := func() {
		add("unknown-payment-admitted", fmt.Sprintf("no payment h%d exists", op.H), "ErrPaymentNotInitiated")
	}
	switch op.Kind {
	case OpInit:
		fresh := &MPay{Value: op.Value, CreatedAt: timeBase + int64(op.Uniq), Reason: -1}
		switch {
		case p == nil, st == StFailed:
			v.next = []*World{w.with(op.H, fresh)}
		case st == StInitiated:
			add("reinit-admitted", "the payment is already initiated", "ErrPaymentExists")
		case st == StInFlight:
			add("reinit-admitted", "the payment is in flight", "ErrPaymentInFlight")
		case st == StSucceeded:
			add("reinit-admitted", "the payment already succeeded", "ErrAlreadyPaid")
		}

	case OpRegister:
		if p == nil {
			unknown()
			break
		}
		n := attFromSpec(op)
		sent := SentAmt(p.Atts)
		if sent+n.Amt > p.Value {
			add("overpay-admitted", fmt.Sprintf("settled+in-flight %d plus the new attempt %d exceeds the payment amount %d", sent, n.Amt, p.Value), "ErrValueExceedsAmt")
		}
		if st == StSucceeded {
			add("register-after-terminal", "the payment already succeeded", "ErrPaymentAlreadySucceeded", "ErrPaymentPendingSettled")
		} else if anyState(p.Atts, ASettled) {
			add("register-after-terminal", "an attempt of the payment has settled", "ErrPaymentPendingSettled")
		}
		if st == StFailed {
			add("register-after-terminal", "the payment has failed", "ErrPaymentAlreadyFailed", "ErrPaymentPendingFailed")
		} else if p.Reason >= 0 {
			add("register-after-terminal", "the payment has been failed (reason recorded)", "ErrPaymentPendingFailed")
		}
		if p.find(n.ID) >= 0 {
			add("dup-id-admitted", fmt.Sprintf("attempt id %d is already registered for this payment", n.ID), "")
		}
		if n.Blinded && n.BlindTotal == 0 {
			add("record-mismatch-admitted", "blinded final hop without total amount", "ErrBlindedPaymentMissingTotalAmount")
		}
		if n.Blinded && n.HasMPP {
			add("record-mismatch-admitted", "blinded attempt carries an MPP record", "ErrMPPRecordInBlindedPayment")
		}
		if !n.Blinded && !n.HasMPP && n.Amt != p.Value {
			add("record-mismatch-admitted", fmt.Sprintf("non-MPP attempt amount %d differs from the payment amount %d", n.Amt, p.Value), "ErrValueMismatch")
		}
		for _, o := range p.Atts {
			c := recordConflicts(n, o)
			if len(c) == 0 {
				continue
			}
			if o.State == AInFlight {
				add("record-mismatch-admitted", fmt.Sprintf("MPP/blinded records conflict with in-flight attempt %d", o.ID), c...)
			} else {
				// errors.go says "a payment that already has an ... attempt
				// registered"; whether a resolved attempt still counts is
				// not documented: leave it open.
				v.open = true
			}
		}
		if len(v.refuse) == 0 {
			np := p.clone()
			np.Atts = append(np.Atts, n)
			sort.Slice(np.Atts, func(i, j int) bool { return np.Atts[i].ID < np.Atts[j].ID })
			v.next = []*World{w.with(op.H, np)}
		}

	case OpSettle, OpFailAttempt:
		if p == nil {
			unknown()
			break
		}
		if st == StSucceeded {
			add("resolve-admitted", "the payment already succeeded", "ErrPaymentAlreadySucceeded")
		}
		if st == StFailed {
			add("resolve-admitted", "the payment already failed", "ErrPaymentAlreadyFailed")
		}
		i := p.find(op.ID)
		switch {
		case i < 0:
			add("resolve-admitted", fmt.Sprintf("attempt %d is not registered for this payment", op.ID), "")
		case p.Atts[i].State == ASettled:
			add("resolve-admitted", fmt.Sprintf("attempt %d is already settled", op.ID), "ErrAttemptAlreadySettled")
		case p.Atts[i].State == AFailed:
			add("resolve-admitted", fmt.Sprintf("attempt %d is already failed", op.ID), "ErrAttemptAlreadyFailed")
		}
		if len(v.refuse) == 0 {
			np := p.clone()
			a := &np.Atts[i]
			a.ResolvedAt = timeBase + int64(op.Uniq)
			if op.Kind == OpSettle {
				a.State = ASettled
				a.Preimage = byte(op.Uniq % 251)
				a.PreimageN = op.Uniq
			} else {
				a.State = AFailed
				a.FailReason = op.Reason
			}
			v.next = []*World{w.with(op.H, np)}
		}

	case OpFail:
		if p == nil {
			unknown()
			break
		}
		np := p.clone()
		np.Reason = op.Reason
		v.next = []*World{w.with(op.H, np)}
		if p.Reason >= 0 && p.Reason != op.Reason {
			// Whether a second Fail overwrites the recorded reason is not
			// documented: both are acceptable.
			v.next = append(v.next, w)
		}

	case OpDeletePayment, OpDeleteFailedAttempts:
		if p == nil {
			unknown()
			break
		}
		if st == StInFlight {
			add("delete-inflight-admitted", "the payment is in flight", "ErrPaymentInFlight")
			break
		}
		if op.Kind == OpDeleteFailedAttempts || op.AttemptsOnly {
			v.next = []*World{w.with(op.H, dropFailed(p))}
		} else {
			v.next = []*World{w.with(op.H, nil)}
		}

	case OpDeletePayments:
		n := &World{P: w.P}
		for h := 0; h < NHash; h++ {
			q := w.P[h]
			if q == nil {
				continue
			}
			s := DocumentedStatus(q.Atts, q.Reason)
			if s == StInFlight || (op.FailedOnly && s != StFailed) {
				continue
			}
			if op.AttemptsOnly {
				n.P[h] = dropFailed(q)
			} else {
				n.P[h] = nil
			}
		}
		v.next = []*World{n.seal()}

	case OpFetch:
		if p == nil {
			unknown()
			break
		}
		v.next = []*World{w}

	case OpFetchInFlight:
		v.next = []*World{w}
	}
	return v
}

func dropFailed(p *MPay) *MPay {
	np := p.clone()
	np.Atts = np.Atts[:0:0]
	for _, a := range p.Atts {
		if a.State != AFailed {
			np.Atts = append(np.Atts, a)
		}
	}
	return np
}

// deletedCount is the documented return value of DeletePayments.
func deletedCount(w, n *World, op Op) int {
	if op.AttemptsOnly {
		return 0
	}
	c := 0
	for h := 0; h < NHash; h++ {
		if w.P[h] != nil && n.P[h] == nil {
			c++
		}
	}
	return c
}

// Truthful reports whether a documented sentinel error class describes the
// model state it was returned in (errors.go). Unknown classes are not judged.
func Truthful(class string, w *World, op Op) bool {
	var p *MPay
	if op.SingleHash() {
		p = w.P[op.H]
	}
	if class == "ErrPaymentNotInitiated" {
		return p == nil
	}
	if p == nil {
		switch class {
		case "other", "injected":
			return true
		}
		return false // every other sentinel speaks about an existing payment
	}
	st := DocumentedStatus(p.Atts, p.Reason)
	n := attFromSpec(op)
	some := func(f func(o PAtt) bool) bool {
		for _, o := range p.Atts {
			if f(o) {
				return true
			}
		}
		return false
	}
	switch class {
	case "ErrAlreadyPaid":
		return anyState(p.Atts, ASettled)
	case "ErrPaymentInFlight":
		return st == StInFlight
	case "ErrPaymentExists":
		return st != StFailed
	case "ErrPaymentAlreadySucceeded":
		return st == StSucceeded
	case "ErrPaymentAlreadyFailed":
		return st == StFailed
	case "ErrPaymentPendingSettled":
		return anyState(p.Atts, ASettled)
	case "ErrPaymentPendingFailed":
		return p.Reason >= 0
	case "ErrAttemptAlreadySettled":
		i := p.find(op.ID)
		return i >= 0 && p.Atts[i].State == ASettled
	case "ErrAttemptAlreadyFailed":
		i := p.find(op.ID)
		return i >= 0 && p.Atts[i].State == AFailed
	case "ErrValueMismatch":
		return op.Kind == OpRegister && !n.Blinded && !n.HasMPP && n.Amt != p.Value
	case "ErrValueExceedsAmt":
		return op.Kind == OpRegister && SentAmt(p.Atts)+n.Amt > p.Value
	case "ErrNonMPPayment":
		return op.Kind == OpRegister && n.HasMPP && some(func(o PAtt) bool { return !o.HasMPP })
	case "ErrMPPayment":
		return op.Kind == OpRegister && !n.HasMPP && some(func(o PAtt) bool { return o.HasMPP })
	case "ErrMPPRecordInBlindedPayment":
		return op.Kind == OpRegister && n.Blinded && (n.HasMPP || some(func(o PAtt) bool { return o.HasMPP }))
	case "ErrBlindedPaymentTotalAmountMismatch":
		return op.Kind == OpRegister && n.Blinded && some(func(o PAtt) bool { return o.Blinded && o.BlindTotal != n.BlindTotal })
	case "ErrMixedBlindedAndNonBlindedPayments":
		return op.Kind == OpRegister && some(func(o PAtt) bool { return o.Blinded != n.Blinded })
	case "ErrBlindedPaymentMissingTotalAmount":
		return op.Kind == OpRegister && n.Blinded && n.BlindTotal == 0
	case "ErrMPPPaymentAddrMismatch":
		return op.Kind == OpRegister && n.HasMPP && some(func(o PAtt) bool { return o.HasMPP && o.MPPAddr != n.MPPAddr })
	case "ErrMPPTotalAmountMismatch":
		return op.Kind == OpRegister && n.HasMPP && some(func(o PAtt) bool { return o.HasMPP && o.MPPTotal != n.MPPTotal })
	case "ErrSentExceedsTotal", "ErrPaymentInternal", "ErrUnknownPaymentStatus", "ErrNoAttemptInfo", "ErrPaymentTerminal":
		// the store reports its own data as inconsistent
		return false
	}
	return true
}

// Reject explains why no successor state exists.
type Reject struct {
	Code string
	Msg  string
}

// Step is the model's transition relation on (state, call, observed result).
// It returns every state the store may be in afterwards; an empty result
// comes with the reason.
func Step(w *World, op Op, res Res) ([]*World, *Reject) {
	v := Judge(w, op)
	if res.Err == "injected" {
		// The simulator made the call fail. Either the transaction never
		// ran, or (MaybeApplied) it committed and only the answer was lost.
		out := []*World{w}
		if res.MaybeApplied && len(v.refuse) == 0 {
			for _, n := range v.next {
				if n.key != w.key {
					out = append(out, n)
				}
			}
		}
		return out, nil
	}
	if !res.OK() {
		switch res.Err {
		case "ErrSentExceedsTotal", "ErrPaymentInternal", "ErrUnknownPaymentStatus", "ErrNoAttemptInfo", "ErrPaymentTerminal":
			return nil, &Reject{"store-inconsistent", fmt.Sprintf("%s failed with %s (%s): the store reports its own records as inconsistent; model state %s", op, res.Err, res.Msg, describe(w, op))}
		}
		if !Truthful(res.Err, w, op) {
			return nil, &Reject{"untruthful-error", fmt.Sprintf("%s was refused with %s, which does not describe the payment: model state %s", op, res.Err, describe(w, op))}
		}
		if len(v.refuse) == 0 && !v.open {
			return nil, &Reject{"unexpected-refusal", fmt.Sprintf("%s was refused (%s: %s) although nothing documented forbids it: model state %s", op, res.Err, res.Msg, describe(w, op))}
		}
		return []*World{w}, nil
	}
	// The call was admitted.
	if len(v.refuse) > 0 {
		r := v.refuse[0]
		return nil, &Reject{r.code, fmt.Sprintf("%s was ADMITTED although %s: model state %s", op, r.why, describe(w, op))}
	}
	var out []*World
	var why string
	for _, n := range v.next {
		ok, msg := outputMatches(w, n, op, res)
		if ok {
			out = append(out, n)
		} else {
			why = msg
		}
	}
	if len(out) == 0 {
		return nil, &Reject{"wrong-result", fmt.Sprintf("%s succeeded but answered wrongly: %s", op, why)}
	}
	return out, nil
}

func describe(w *World, op Op) string {
	if op.SingleHash() {
		return "{" + ModelProj(op.H, w.P[op.H]).Key() + "}"
	}
	return "{" + w.key + "}"
}

// outputMatches compares what the call returned with the successor state n.
func outputMatches(w, n *World, op Op, res Res) (bool, string) {
	switch op.Kind {
	case OpInit, OpDeletePayment, OpDeleteFailedAttempts:
		return true, ""
	case OpDeletePayments:
		if want := deletedCount(w, n, op); res.N != want {
			return false, fmt.Sprintf("reported %d deleted payments, documented count is %d", res.N, want)
		}
		return true, ""
	case OpRegister, OpSettle, OpFailAttempt, OpFail, OpFetch:
		want := ModelProj(op.H, n.P[op.H])
		if res.Pay == nil {
			return false, "no payment returned"
		}
		if res.Pay.Key() != want.Key() {
			return false, fmt.Sprintf("returned payment\n      got  {%s}\n      want {%s}", res.Pay.Key(), want.Key())
		}
		return true, ""
	case OpFetchInFlight:
		seen := map[int]bool{}
		for _, p := range res.List {
			if seen[p.H] {
				return false, fmt.Sprintf("h%d listed twice", p.H)
			}
			seen[p.H] = true
			want := ModelProj(p.H, n.P[p.H])
			if want == nil {
				return false, fmt.Sprintf("lists h%d, which does not exist", p.H)
			}
			if p.Key() != want.Key() {
				return false, fmt.Sprintf("listed payment\n      got  {%s}\n      want {%s}", p.Key(), want.Key())
			}
			if want.Status == StSucceeded || want.Status == StFailed {
				return false, fmt.Sprintf("lists h%d whose status is %s", p.H, stName(want.Status))
			}
		}
		for h := 0; h < NHash; h++ {
			if q := n.P[h]; q != nil && DocumentedStatus(q.Atts, q.Reason) == StInFlight && !seen[h] {
				return false, fmt.Sprintf("omits h%d although its status is InFlight", h)
			}
		}
		return true, ""
	}
	return true, ""
}
