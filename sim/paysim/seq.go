package paysim

import (
	"fmt"
	"strings"

	"verif/simcore"
)

// Mode selects an arm.
type Mode struct {
	Backends []string // "kv", "sql" or both (differential)
	Faults   bool     // restarts, failed writes, crashes around a transaction
	Wild     bool     // attempt-id contract deliberately broken
	MaxSteps int
}

// observed is what FetchPayment says about every hash.
type observed [NHash]*Proj

func (o observed) key() string {
	var b strings.Builder
	for h := 0; h < NHash; h++ {
		b.WriteString(o[h].Key())
		b.WriteString(" | ")
	}
	return b.String()
}

type seqSim struct {
	r     *simcore.Run
	mode  Mode
	k     Knobs
	gen   *Gen
	bs    []Backend
	world *World
	obs   []observed // last observation per backend
	// bookkeeping for the non-triviality rule and probes
	admitted, refusedBySafety int
	faults, okAfterFault      int
	ledger                    [NHash][]ledgerEntry
	breach                    string // contract breach of the current call (wild arms)
	followed                  string // first contract breach whose outcome the model had to take from the store
}

// ledgerEntry is one RegisterAttempt call the store admitted: an HTLC the
// router will put on the wire. It stops counting only when a FailAttempt
// naming its id is admitted.
type ledgerEntry struct {
	id     uint64
	amt    int64
	failed bool
}

// contractBreach names the way a call breaks the documented caller contract
// "AttemptID is the unique ID used for this attempt" (wild arms only).
func contractBreach(w *World, op Op) string {
	inPay := func(h int, id uint64) bool { return w.P[h] != nil && w.P[h].find(id) >= 0 }
	elsewhere := func(id uint64) bool {
		for h := 0; h < NHash; h++ {
			if h != op.H && inPay(h, id) {
				return true
			}
		}
		return false
	}
	switch op.Kind {
	case OpRegister:
		if inPay(op.H, op.Att.ID) {
			return "dup-id"
		}
		if elsewhere(op.Att.ID) {
			return "id-used-by-other-payment"
		}
	case OpSettle, OpFailAttempt:
		if !inPay(op.H, op.ID) && elsewhere(op.ID) {
			return "foreign-attempt"
		}
	}
	return ""
}

func worldFromObserved(o observed) *World {
	w := &World{}
	for h := 0; h < NHash; h++ {
		if p := o[h]; p != nil {
			w.P[h] = &MPay{Value: p.Value, CreatedAt: p.CreatedAt, Reason: p.Reason, Atts: append([]PAtt(nil), p.Atts...)}
		}
	}
	return w.seal()
}

func openBackend(r *simcore.Run, name string) Backend {
	var b Backend
	var err error
	switch name {
	case "kv":
		b, err = OpenKV(r.SubDir("kv"))
	case "sql":
		b, err = OpenSQL(r.SubDir("sql"))
	default:
		r.Harness("unknown backend %q", name)
	}
	r.Must(err, "open "+name+" store")
	r.Cleanup(b.Close)
	return b
}

// RunSeq is one sequential execution: one client, one or two backends.
func RunSeq(r *simcore.Run, mode Mode) {
	k := DrawKnobs(r.Tape, mode.Wild, 2)
	s := &seqSim{r: r, mode: mode, k: k, gen: NewGen(r, k), world: EmptyWorld()}
	for _, n := range mode.Backends {
		s.bs = append(s.bs, openBackend(r, n))
	}
	s.obs = make([]observed, len(s.bs))
	r.Logf("config: backends=%v faults=%v wild=%v knobs=%+v", mode.Backends, mode.Faults, mode.Wild, k)

	for step := 0; step < mode.MaxSteps && r.Step(); step++ {
		fault := ""
		if mode.Faults && s.faults < 4 {
			// Draw()==0 (a shrunk tape) means "no fault".
			switch x := r.Draw(24); {
			case x == 23:
				fault = "restart"
			case x == 22:
				fault = "fail"
			case x == 21:
				fault = "crash-before"
			case x == 20:
				fault = "crash-after"
			}
		}
		if fault == "restart" {
			r.Kind("restart")
			s.restart("clean restart")
			continue
		}
		op := s.gen.Next(s.world, nil)
		if fault != "" {
			r.Kind(op.Kind.String() + "!" + fault)
		} else {
			r.Kind(op.Kind.String())
		}
		s.doOp(op, fault)
		s.noteState()
	}
	// wind-down: a final restart must reproduce the same state (durability of
	// everything acknowledged).
	if mode.Faults {
		s.restart("final restart")
	}
	if mode.Faults {
		r.Nontrivial = s.faults > 0 && s.okAfterFault > 0 && s.admitted > 0
	} else {
		r.Nontrivial = s.admitted > 0 && s.refusedBySafety > 0
	}
}

func (s *seqSim) restart(what string) {
	r := s.r
	for i, b := range s.bs {
		r.Must(b.Restart(), "restart "+b.Name())
		o := s.observe(b)
		if o.key() != s.world.Key() {
			r.Fail("lost-after-restart", "%s store after %s differs from the acknowledged state\n   store {%s}\n   model {%s}", b.Name(), what, o.key(), s.world.Key())
		}
		s.obs[i] = o
	}
	r.Count("fault_restart")
	s.faults++
	r.Logf("%s: state preserved", what)
}

// observe reads every hash through FetchPayment (the simulator's own probe,
// not part of the judged history).
func (s *seqSim) observe(b Backend) observed {
	var o observed
	for h := 0; h < NHash; h++ {
		res := Exec(b.DB(), Op{Kind: OpFetch, H: h})
		s.checkRaw(b, Op{Kind: OpFetch, H: h}, res)
		switch {
		case res.OK():
			o[h] = res.Pay
		case res.Err == "ErrPaymentNotInitiated":
		default:
			s.r.Fail("probe-failed", "%s: FetchPayment(h%d) failed with %s: %s", b.Name(), h, res.Err, res.Msg)
		}
	}
	return o
}

func (s *seqSim) checkRaw(b Backend, op Op, res Res) {
	for _, bad := range res.Raw {
		code := bad
		if i := strings.Index(bad, ":"); i > 0 {
			code = bad[:i]
		}
		s.r.FailSig(code, s.sig(), "%s: %s returned a payment that breaks an invariant: %s", b.Name(), op, bad)
	}
}

func (s *seqSim) sig() string {
	if s.mode.Wild {
		// root cause first: the first contract breach whose outcome the
		// model had to take from the store, else the breach of this call
		if s.followed != "" {
			return "wild-ids:after-" + s.followed
		}
		if s.breach != "" {
			return "wild-ids:" + s.breach
		}
		return "wild-ids"
	}
	return ""
}

func (s *seqSim) doOp(op Op, fault string) {
	r := s.r
	results := make([]Res, len(s.bs))
	for i, b := range s.bs {
		switch fault {
		case "fail":
			b.ArmFailBefore()
		case "crash-before":
			b.ArmCrashBefore()
		case "crash-after":
			b.ArmCrashAfter()
		}
		res := Exec(b.DB(), op)
		b.Disarm()
		fired := b.Fired()
		if fired != "" {
			r.Count("fault_" + strings.ReplaceAll(fired, "-", "_"))
			if res.Err != "injected" {
				r.Fail("fault-swallowed", "%s: %s answered %s although its write transaction hit an injected %s", b.Name(), op, res, fired)
			}
			res.MaybeApplied = fired == "crash-after"
		} else if res.Err == "injected" {
			r.Harness("%s: %s reports an injected error but no fault fired: %s", b.Name(), op, res.Msg)
		}
		results[i] = res
		s.checkRaw(b, op, res)
	}
	if len(s.bs) == 2 && results[0].Key(false) != results[1].Key(false) {
		r.Logf("%s -> %s: %s | %s: %s", op, s.bs[0].Name(), results[0], s.bs[1].Name(), results[1])
	} else {
		r.Logf("%s -> %s", op, results[0])
	}
	s.breach = ""
	if s.mode.Wild {
		s.breach = contractBreach(s.world, op)
	}

	// KV == SQL on the same sequential history.
	if len(s.bs) == 2 && results[0].Key(false) != results[1].Key(false) {
		r.FailSig("backend-diff", s.sig(), "the two stores answer the same history differently at %s\n   %s: %s (%s)\n   %s: %s (%s)",
			op, s.bs[0].Name(), results[0], results[0].Msg, s.bs[1].Name(), results[1], results[1].Msg)
	}
	if len(s.bs) == 2 && results[0].Err != results[1].Err {
		r.Count("note_errclass_differs:" + op.Kind.String() + ":" + results[0].Err + "/" + results[1].Err)
	}

	// Reference model.
	res := results[0]
	next, rej := Step(s.world, op, res)
	follow := false
	if rej != nil {
		// A call that breaks the caller's own contract (attempt ids are
		// unique) has no documented outcome: the model follows whatever the
		// store did; the model-independent oracles below keep judging.
		if s.breach != "" && (rej.Code == "dup-id-admitted" || rej.Code == "resolve-admitted" || rej.Code == "unexpected-refusal") {
			follow = true
			if s.followed == "" {
				s.followed = s.breach
			}
			r.Count("probe_contract_breach_" + strings.ReplaceAll(s.breach, "-", "_") + ":" + rej.Code)
		} else {
			r.FailSig(rej.Code, s.sig(), "%s: %s", s.bs[0].Name(), rej.Msg)
		}
	} else {
		s.noteProbes(op, res)
	}

	// Crashed nodes restart before anything else happens.
	crashed := false
	for _, b := range s.bs {
		if b.Dead() {
			crashed = true
			r.Must(b.Restart(), "restart after crash")
		}
	}
	if fault != "" && results[0].Err == "injected" {
		s.faults++
	} else if s.faults > 0 && res.OK() && op.Kind != OpFetch && op.Kind != OpFetchInFlight {
		s.okAfterFault++
	}

	// Observe and reconcile: the store must be in one of the states the
	// model allows (exactly one unless the documentation leaves it open or
	// a crash hid the answer).
	before := s.obs
	s.obs = make([]observed, len(s.bs))
	var chosen *World
	for i, b := range s.bs {
		o := s.observe(b)
		s.obs[i] = o
		var match *World
		for _, n := range next {
			if n.Key() == o.key() {
				match = n
				break
			}
		}
		if follow {
			match = worldFromObserved(o)
		}
		if match == nil {
			var want []string
			for _, n := range next {
				want = append(want, "{"+n.Key()+"}")
			}
			r.FailSig("state-divergence", s.sig(), "%s: after %s -> %s the store holds\n   {%s}\n   the model allows\n   %s", b.Name(), op, res, o.key(), strings.Join(want, "\n   or "))
		}
		if chosen != nil && chosen.Key() != match.Key() {
			r.FailSig("backend-diff", s.sig(), "after %s the two stores hold different states\n   %s {%s}\n   %s {%s}", op, s.bs[0].Name(), chosen.Key(), b.Name(), match.Key())
		}
		chosen = match
		s.checkTransition(b, before[i], o, op, results[i])
	}
	s.updateLedger(op, res, before[0], s.obs[0])
	if crashed {
		r.Logf("crash during %s; restarted; state %s", op, map[bool]string{true: "unchanged", false: "advanced"}[chosen.Key() == s.world.Key()])
	}
	s.world = chosen
}

// checkTransition evaluates the history clauses of C16 on two consecutive
// observations of one store, using nothing but what the store reported.
func (s *seqSim) checkTransition(b Backend, before, after observed, op Op, res Res) {
	r := s.r
	applied := res.OK() || res.MaybeApplied
	for h := 0; h < NHash; h++ {
		bp, ap := before[h], after[h]
		if bp == nil {
			continue
		}
		deleted := applied && ((op.Kind == OpDeletePayment && op.H == h && !op.AttemptsOnly) ||
			(op.Kind == OpDeletePayments && !op.AttemptsOnly))
		reinit := applied && op.Kind == OpInit && op.H == h
		if bp.Status == StSucceeded {
			switch {
			case ap == nil && deleted:
			case ap == nil:
				r.FailSig("trans-succeeded-changed", s.sig(), "%s: succeeded payment h%d vanished through %s", b.Name(), h, op)
			case ap.Status != StSucceeded || ap.CreatedAt != bp.CreatedAt:
				r.FailSig("trans-succeeded-changed", s.sig(), "%s: a succeeded payment changed through %s\n   before {%s}\n   after  {%s}", b.Name(), op, bp.Key(), ap.Key())
			}
		}
		if bp.Status == StFailed {
			switch {
			case ap == nil && deleted:
			case ap == nil:
				r.FailSig("trans-failed-changed", s.sig(), "%s: failed payment h%d vanished through %s", b.Name(), h, op)
			case ap.Status != StFailed && !reinit:
				r.FailSig("trans-failed-changed", s.sig(), "%s: a failed payment left the Failed status without re-initiation, through %s\n   before {%s}\n   after  {%s}", b.Name(), op, bp.Key(), ap.Key())
			}
		}
	}
	if !res.OK() {
		return
	}
	bp := before[op.H]
	switch op.Kind {
	case OpInit:
		if bp != nil && bp.Status != StFailed {
			r.FailSig("trans-init", s.sig(), "%s: %s was admitted while the store reported {%s}", b.Name(), op, bp.Key())
		}
	case OpRegister:
		switch {
		case bp == nil:
			r.FailSig("trans-register", s.sig(), "%s: %s was admitted for a payment the store did not know", b.Name(), op)
		case anyState(bp.Atts, ASettled):
			r.FailSig("trans-register", s.sig(), "%s: %s was admitted after an attempt had settled: {%s}", b.Name(), op, bp.Key())
		case bp.Reason >= 0:
			r.FailSig("trans-register", s.sig(), "%s: %s was admitted after the payment had been failed: {%s}", b.Name(), op, bp.Key())
		case SentAmt(bp.Atts)+op.Att.Amt > bp.Value:
			r.FailSig("trans-register", s.sig(), "%s: %s was admitted although settled+in-flight %d + %d exceeds the amount %d: {%s}", b.Name(), op, SentAmt(bp.Atts), op.Att.Amt, bp.Value, bp.Key())
		}
	}
}

// noteProbes counts the rare branches a run reached.
func (s *seqSim) noteProbes(op Op, res Res) {
	r := s.r
	v := Judge(s.world, op)
	if res.OK() {
		r.Count("ok_" + op.Kind.String())
		if op.Kind == OpRegister {
			s.admitted++
		}
		if op.Kind == OpInit && s.world.P[op.H] != nil {
			r.Count("probe_reinit_after_failed")
		}
		if op.Kind == OpSettle && s.world.P[op.H] != nil && s.world.P[op.H].Reason >= 0 {
			r.Count("probe_settle_after_payment_failed")
		}
		if v.open {
			r.Count("probe_open_case_admitted")
		}
		return
	}
	if res.Err == "injected" {
		return
	}
	if v.open && len(v.refuse) == 0 {
		r.Count("probe_open_case_refused")
		r.Logf("note: undocumented corner refused (%s) in state %s", res.Err, describe(s.world, op))
	}
	expected := false
	for _, rs := range v.refuse {
		switch rs.code {
		case "overpay-admitted":
			r.Count("probe_overpay_refused")
			s.refusedBySafety++
		case "register-after-terminal":
			r.Count("probe_register_after_terminal_refused")
			s.refusedBySafety++
		case "reinit-admitted":
			r.Count("probe_reinit_refused")
			s.refusedBySafety++
		case "record-mismatch-admitted":
			r.Count("probe_record_mismatch_refused")
		case "dup-id-admitted":
			r.Count("probe_dup_id_refused")
		case "resolve-admitted":
			r.Count("probe_resolve_refused")
		case "delete-inflight-admitted":
			r.Count("probe_delete_inflight_refused")
		case "unknown-payment-admitted":
			r.Count("probe_unknown_payment_refused")
		}
		for _, e := range rs.expect {
			if e == res.Err || e == "" {
				expected = true
			}
		}
	}
	if len(v.refuse) > 0 && !expected {
		// Refused, as it must be, but with an error class the
		// documentation does not name for this situation. Not a C16
		// violation; kept as a statistic for the report.
		r.Count(fmt.Sprintf("note_errclass:%s:%s:%s", s.bs[0].Name(), op.Kind, res.Err))
	}
}

func (s *seqSim) noteState() {
	var b strings.Builder
	for h := 0; h < NHash; h++ {
		p := s.world.P[h]
		if p == nil {
			b.WriteString("-;")
			continue
		}
		var c [3]int
		for _, a := range p.Atts {
			c[a.State]++
		}
		fmt.Fprintf(&b, "%s/%d.%d.%d/%v;", stName(DocumentedStatus(p.Atts, p.Reason)), min(c[0], 3), min(c[1], 2), min(c[2], 2), p.Reason >= 0)
	}
	s.r.State(b.String())
}

// updateLedger keeps the simulator's own account of what the store admitted
// and checks the first clause of C16 on it: "the store admits a new attempt
// only while settled plus in-flight attempt amounts stay within the payment
// amount". Favourable to the store: an admitted FailAttempt naming an id (under
// any hash) releases the largest open entry with that id.
func (s *seqSim) updateLedger(op Op, res Res, before, after observed) {
	r := s.r
	at := timeBase + int64(op.Uniq)
	// payments that disappeared or were re-initiated start a new account
	for h := 0; h < NHash; h++ {
		if after[h] == nil || (before[h] != nil && after[h].CreatedAt != before[h].CreatedAt) {
			s.ledger[h] = nil
		}
	}
	switch op.Kind {
	case OpRegister:
		applied := res.OK()
		if res.MaybeApplied && after[op.H] != nil {
			for _, a := range after[op.H].Atts {
				if a.ID == op.Att.ID && a.AttemptAt == at {
					applied = true
				}
			}
		}
		if !applied || after[op.H] == nil {
			return
		}
		s.ledger[op.H] = append(s.ledger[op.H], ledgerEntry{id: op.Att.ID, amt: op.Att.Amt})
		var open int64
		var parts []string
		for _, e := range s.ledger[op.H] {
			if !e.failed {
				open += e.amt
				parts = append(parts, fmt.Sprintf("id=%d:%d", e.id, e.amt))
			}
		}
		if open > after[op.H].Value {
			r.FailSig("overpay-ledger", s.sig(), "%s: %s was admitted; the attempts admitted for this payment and never failed now sum to %d msat (%s), the payment amount is %d. The store reports {%s}",
				s.bs[0].Name(), op, open, strings.Join(parts, " "), after[op.H].Value, after[op.H].Key())
		}
	case OpFailAttempt:
		applied := res.OK()
		if res.MaybeApplied {
			for h := 0; h < NHash; h++ {
				if after[h] == nil {
					continue
				}
				for _, a := range after[h].Atts {
					if a.ID == op.ID && a.State == AFailed && a.ResolvedAt == at {
						applied = true
					}
				}
			}
		}
		if !applied {
			return
		}
		// the named hash first; other hashes only if it has no such entry
		// (a store that resolves by attempt id alone)
		bh, bi := -1, -1
		order := []int{op.H}
		for h := 0; h < NHash; h++ {
			if h != op.H {
				order = append(order, h)
			}
		}
		for n, h := range order {
			if n > 0 && bh == op.H {
				break
			}
			for i, e := range s.ledger[h] {
				if e.id == op.ID && !e.failed && (bh < 0 || (bh == h && e.amt > s.ledger[bh][bi].amt)) {
					bh, bi = h, i
				}
			}
		}
		if bh >= 0 {
			s.ledger[bh][bi].failed = true
		}
	}
}
