package paysim

import (
	"context"
	"crypto/sha256"
	"database/sql"
	"encoding/binary"
	"errors"
	"fmt"
	"os"
	"path/filepath"
	"sort"
	"time"

	"github.com/btcsuite/btcd/btcec/v2"
	"github.com/lightningnetwork/lnd/lntypes"
	"github.com/lightningnetwork/lnd/lnwire"
	paymentsdb "github.com/lightningnetwork/lnd/payments/db"
	"github.com/lightningnetwork/lnd/record"
	"github.com/lightningnetwork/lnd/routing/route"
	"github.com/lightningnetwork/lnd/sqldb"

	"verif/simcore"
)

// ---------------------------------------------------------------------------
// Fixed identities.
// ---------------------------------------------------------------------------

var (
	hashes   [NHash]lntypes.Hash
	hashIdx  = map[lntypes.Hash]int{}
	warmHash lntypes.Hash // used only to pre-allocate the KV sequence block
	hopKey   *btcec.PrivateKey
	hopVtx   route.Vertex
)

func init() {
	for i := 0; i < NHash; i++ {
		var pre [32]byte
		pre[0] = 0xa0 + byte(i)
		hashes[i] = sha256.Sum256(pre[:])
		hashIdx[hashes[i]] = i
	}
	warmHash = sha256.Sum256([]byte("paysim warm-up payment"))
	k := sha256.Sum256([]byte("paysim hop key"))
	hopKey, _ = btcec.PrivKeyFromBytes(k[:])
	hopVtx = route.NewVertex(hopKey.PubKey())
}

func sessionKey(uniq int) *btcec.PrivateKey {
	var b [40]byte
	copy(b[:], "paysim session key")
	binary.BigEndian.PutUint64(b[32:], uint64(uniq))
	k := sha256.Sum256(b[:])
	priv, _ := btcec.PrivKeyFromBytes(k[:])
	return priv
}

func opTime(uniq int) time.Time { return time.Unix(timeBase+int64(uniq), 0) }

// ---------------------------------------------------------------------------
// Error classes: the exported sentinels of payments/db/errors.go.
// ---------------------------------------------------------------------------

var sentinels = []struct {
	name string
	err  error
}{
	{"ErrAlreadyPaid", paymentsdb.ErrAlreadyPaid},
	{"ErrPaymentInFlight", paymentsdb.ErrPaymentInFlight},
	{"ErrPaymentExists", paymentsdb.ErrPaymentExists},
	{"ErrPaymentInternal", paymentsdb.ErrPaymentInternal},
	{"ErrPaymentNotInitiated", paymentsdb.ErrPaymentNotInitiated},
	{"ErrPaymentAlreadySucceeded", paymentsdb.ErrPaymentAlreadySucceeded},
	{"ErrPaymentAlreadyFailed", paymentsdb.ErrPaymentAlreadyFailed},
	{"ErrUnknownPaymentStatus", paymentsdb.ErrUnknownPaymentStatus},
	{"ErrPaymentTerminal", paymentsdb.ErrPaymentTerminal},
	{"ErrAttemptAlreadySettled", paymentsdb.ErrAttemptAlreadySettled},
	{"ErrAttemptAlreadyFailed", paymentsdb.ErrAttemptAlreadyFailed},
	{"ErrValueMismatch", paymentsdb.ErrValueMismatch},
	{"ErrValueExceedsAmt", paymentsdb.ErrValueExceedsAmt},
	{"ErrNonMPPayment", paymentsdb.ErrNonMPPayment},
	{"ErrMPPayment", paymentsdb.ErrMPPayment},
	{"ErrMPPRecordInBlindedPayment", paymentsdb.ErrMPPRecordInBlindedPayment},
	{"ErrBlindedPaymentTotalAmountMismatch", paymentsdb.ErrBlindedPaymentTotalAmountMismatch},
	{"ErrMixedBlindedAndNonBlindedPayments", paymentsdb.ErrMixedBlindedAndNonBlindedPayments},
	{"ErrBlindedPaymentMissingTotalAmount", paymentsdb.ErrBlindedPaymentMissingTotalAmount},
	{"ErrMPPPaymentAddrMismatch", paymentsdb.ErrMPPPaymentAddrMismatch},
	{"ErrMPPTotalAmountMismatch", paymentsdb.ErrMPPTotalAmountMismatch},
	{"ErrPaymentPendingSettled", paymentsdb.ErrPaymentPendingSettled},
	{"ErrPaymentPendingFailed", paymentsdb.ErrPaymentPendingFailed},
	{"ErrSentExceedsTotal", paymentsdb.ErrSentExceedsTotal},
	{"ErrNoAttemptInfo", paymentsdb.ErrNoAttemptInfo},
}

func classify(err error) string {
	if err == nil {
		return ""
	}
	if errors.Is(err, simcore.ErrSimCrashed) || errors.Is(err, simcore.ErrSimIO) {
		return "injected"
	}
	for _, s := range sentinels {
		if errors.Is(err, s.err) {
			return s.name
		}
	}
	return "other"
}

// ---------------------------------------------------------------------------
// Projection + invariants that every returned MPPayment must satisfy.
// ---------------------------------------------------------------------------

// project turns an MPPayment into the comparable projection and reports
// violations of the per-payment invariants ("code: text").
func project(m *paymentsdb.MPPayment) (*Proj, []string) {
	var bad []string
	if m == nil || m.Info == nil {
		return nil, []string{"inv-state: payment returned without creation info"}
	}
	h, ok := hashIdx[m.Info.PaymentIdentifier]
	if !ok {
		h = -1
		bad = append(bad, fmt.Sprintf("wrong-payment: returned payment has unknown identifier %v", m.Info.PaymentIdentifier))
	}
	p := &Proj{H: h, Value: int64(m.Info.Value), CreatedAt: m.Info.CreationTime.Unix(),
		Status: int(m.Status), Reason: -1}
	if m.FailureReason != nil {
		p.Reason = int(*m.FailureReason)
	}
	ids := map[uint64]bool{}
	for i := range m.HTLCs {
		a := &m.HTLCs[i]
		pa := PAtt{ID: a.AttemptID, Amt: int64(a.Route.ReceiverAmt()), AttemptAt: a.AttemptTime.Unix()}
		if ids[pa.ID] {
			bad = append(bad, fmt.Sprintf("inv-dup-attempt: attempt id %d appears twice in one payment", pa.ID))
		}
		ids[pa.ID] = true
		if fh := a.Route.FinalHop(); fh != nil {
			if len(fh.EncryptedData) != 0 {
				pa.Blinded = true
				pa.BlindTotal = int64(fh.TotalAmtMsat)
			}
			if fh.MPP != nil {
				pa.HasMPP = true
				pa.MPPTotal = int64(fh.MPP.TotalMsat())
				addr := fh.MPP.PaymentAddr()
				pa.MPPAddr = addr[0]
			}
		}
		switch {
		case a.Settle != nil && a.Failure != nil:
			bad = append(bad, fmt.Sprintf("inv-state: attempt %d is reported both settled and failed", pa.ID))
			pa.State = ASettled
		case a.Settle != nil:
			pa.State = ASettled
			pa.Preimage = a.Settle.Preimage[0]
			pa.PreimageN = int(binary.BigEndian.Uint32(a.Settle.Preimage[1:5]))
			pa.ResolvedAt = a.Settle.SettleTime.Unix()
		case a.Failure != nil:
			pa.State = AFailed
			pa.FailReason = int(a.Failure.Reason)
			pa.ResolvedAt = a.Failure.FailTime.Unix()
		}
		p.Atts = append(p.Atts, pa)
	}
	sort.SliceStable(p.Atts, func(i, j int) bool { return p.Atts[i].ID < p.Atts[j].ID })
	if m.State == nil {
		bad = append(bad, "inv-state: payment returned without MPPaymentState")
	} else {
		p.NumInFlight = m.State.NumAttemptsInFlight
		p.Remaining = int64(m.State.RemainingAmt)
		p.HasSettled = m.State.HasSettledHTLC
		p.PaymentFailed = m.State.PaymentFailed
	}
	bad = append(bad, CheckPayment(p)...)
	return p, bad
}

// CheckPayment evaluates the invariants of C16 that speak about a single
// reported payment. They use only the reported fields and the documented
// truth table.
func CheckPayment(p *Proj) []string {
	var bad []string
	sent := SentAmt(p.Atts)
	if sent > p.Value {
		bad = append(bad, fmt.Sprintf("inv-overpaid: settled+in-flight attempts sum to %d, the payment amount is %d: {%s}", sent, p.Value, p.Key()))
	}
	want := DocumentedStatus(p.Atts, p.Reason)
	if anyState(p.Atts, ASettled) && p.Status == StFailed {
		bad = append(bad, fmt.Sprintf("inv-settled-reported-failed: a payment with a settled attempt is reported Failed: {%s}", p.Key()))
	}
	if p.Status != want {
		bad = append(bad, fmt.Sprintf("inv-status: reported status %s, the documented function of (attempts, failure reason) gives %s: {%s}", stName(p.Status), stName(want), p.Key()))
	}
	n := 0
	for _, a := range p.Atts {
		if a.State == AInFlight {
			n++
		}
	}
	if p.NumInFlight != n || p.HasSettled != anyState(p.Atts, ASettled) ||
		(sent <= p.Value && p.Remaining != p.Value-sent) ||
		(!p.HasSettled && p.PaymentFailed != (p.Reason >= 0)) {
		bad = append(bad, fmt.Sprintf("inv-state: MPPaymentState disagrees with the attempts: {%s}", p.Key()))
	}
	return bad
}

// ---------------------------------------------------------------------------
// Executing one op.
// ---------------------------------------------------------------------------

func buildAttempt(op Op) (*paymentsdb.HTLCAttemptInfo, error) {
	a := op.Att
	hop := &route.Hop{
		PubKeyBytes:      hopVtx,
		ChannelID:        12345,
		OutgoingTimeLock: 111,
		AmtToForward:     lnwire.MilliSatoshi(a.Amt),
	}
	if a.HasMPP {
		var addr [32]byte
		addr[0] = a.MPPAddr
		hop.MPP = record.NewMPP(lnwire.MilliSatoshi(a.MPPTotal), addr)
	}
	if a.Kind == AttBlinded {
		hop.EncryptedData = []byte{2, 2, 2}
		hop.BlindingPoint = hopKey.PubKey()
		hop.TotalAmtMsat = lnwire.MilliSatoshi(a.BlindTotal)
	}
	rt := route.Route{
		TotalTimeLock: 123,
		TotalAmount:   lnwire.MilliSatoshi(a.Amt),
		SourcePubKey:  hopVtx,
		Hops:          []*route.Hop{hop},
	}
	hash := hashes[op.H]
	att, err := paymentsdb.NewHtlcAttempt(a.ID, sessionKey(op.Uniq), rt, opTime(op.Uniq), &hash)
	if err != nil {
		return nil, err
	}
	return &att.HTLCAttemptInfo, nil
}

func payRes(m *paymentsdb.MPPayment, err error, wantH int) Res {
	if err != nil {
		return Res{Err: classify(err), Msg: err.Error()}
	}
	p, bad := project(m)
	if p != nil && p.H != wantH {
		bad = append(bad, fmt.Sprintf("wrong-payment: asked about h%d, got a payment for h%d", wantH, p.H))
	}
	return Res{Pay: p, Raw: bad}
}

func errRes(err error) Res {
	if err != nil {
		return Res{Err: classify(err), Msg: err.Error()}
	}
	return Res{}
}

// Exec performs op on db and projects the answer.
func Exec(db paymentsdb.DB, op Op) Res {
	ctx := context.Background()
	switch op.Kind {
	case OpInit:
		return errRes(db.InitPayment(ctx, hashes[op.H], &paymentsdb.PaymentCreationInfo{
			PaymentIdentifier: hashes[op.H],
			Value:             lnwire.MilliSatoshi(op.Value),
			CreationTime:      opTime(op.Uniq),
			PaymentRequest:    []byte("lnbc-paysim"),
		}))
	case OpRegister:
		att, err := buildAttempt(op)
		if err != nil {
			panic(fmt.Sprintf("paysim: cannot build attempt %v: %v", op, err))
		}
		m, err := db.RegisterAttempt(ctx, hashes[op.H], att)
		return payRes(m, err, op.H)
	case OpSettle:
		var pre lntypes.Preimage
		pre[0] = byte(op.Uniq % 251)
		binary.BigEndian.PutUint32(pre[1:5], uint32(op.Uniq))
		m, err := db.SettleAttempt(ctx, hashes[op.H], op.ID, &paymentsdb.HTLCSettleInfo{
			Preimage: pre, SettleTime: opTime(op.Uniq)})
		return payRes(m, err, op.H)
	case OpFailAttempt:
		m, err := db.FailAttempt(ctx, hashes[op.H], op.ID, &paymentsdb.HTLCFailInfo{
			FailTime: opTime(op.Uniq), Reason: paymentsdb.HTLCFailReason(op.Reason), FailureSourceIndex: 1})
		return payRes(m, err, op.H)
	case OpFail:
		m, err := db.Fail(ctx, hashes[op.H], paymentsdb.FailureReason(op.Reason))
		return payRes(m, err, op.H)
	case OpDeletePayment:
		return errRes(db.DeletePayment(ctx, hashes[op.H], op.AttemptsOnly))
	case OpDeleteFailedAttempts:
		return errRes(db.DeleteFailedAttempts(ctx, hashes[op.H]))
	case OpDeletePayments:
		n, err := db.DeletePayments(ctx, op.FailedOnly, op.AttemptsOnly)
		if err != nil {
			return errRes(err)
		}
		return Res{N: n}
	case OpFetch:
		m, err := db.FetchPayment(ctx, hashes[op.H])
		return payRes(m, err, op.H)
	case OpFetchInFlight:
		ms, err := db.FetchInFlightPayments(ctx)
		if err != nil {
			return errRes(err)
		}
		res := Res{List: []*Proj{}}
		for _, m := range ms {
			p, bad := project(m)
			res.Raw = append(res.Raw, bad...)
			if p != nil {
				res.List = append(res.List, p)
			}
		}
		sort.SliceStable(res.List, func(i, j int) bool { return res.List[i].H < res.List[j].H })
		return res
	}
	panic("paysim: unknown op kind")
}

// ---------------------------------------------------------------------------
// Backends.
// ---------------------------------------------------------------------------

// Backend is one payment store under test plus the simulator's handles on it.
type Backend interface {
	Name() string
	DB() paymentsdb.DB
	// SetYield installs the hook called at every transaction entry.
	SetYield(f func())
	// Fault arming; each applies to the next write transaction only.
	ArmFailBefore()  // the next write tx fails at entry, nothing is written
	ArmCrashBefore() // the node dies at the entry of the next write tx
	ArmCrashAfter()  // the next write tx commits, then the node dies
	Disarm()
	// Fired reports (and clears) which fault actually hit: "", "fail",
	// "crash-before", "crash-after".
	Fired() string
	Fence()     // the node dies now
	Dead() bool // node crashed, Restart needed
	Restart() error
	Close()
}

// ---- KV on SimKV ----------------------------------------------------------

type kvBackend struct {
	kv    *simcore.SimKV
	store *paymentsdb.KVStore
	yield func()
}

// OpenKV creates a KVStore on a fresh SimKV database in dir.
func OpenKV(dir string) (Backend, error) {
	kv, err := simcore.OpenSimKV(dir, "payments.db")
	if err != nil {
		return nil, err
	}
	b := &kvBackend{kv: kv}
	kv.OnTx = func(bool) {
		if b.yield != nil {
			b.yield()
		}
	}
	if err := b.open(); err != nil {
		return nil, err
	}
	return b, nil
}

// open builds the store object and pre-allocates the payment sequence block:
// KVStore.nextPaymentSequence holds a Go mutex across its own database
// transaction, so a simulated client parked at that transaction would block
// every other InitPayment on a lock the scheduler cannot see. One throw-away
// InitPayment + DeletePayment moves that transaction out of the way (the next
// one is due 1000 payments later).
func (b *kvBackend) open() error {
	y := b.yield
	b.yield = nil
	defer func() { b.yield = y }()
	st, err := paymentsdb.NewKVStore(b.kv)
	if err != nil {
		return err
	}
	b.store = st
	ctx := context.Background()
	err = st.InitPayment(ctx, warmHash, &paymentsdb.PaymentCreationInfo{
		PaymentIdentifier: warmHash, Value: 1, CreationTime: time.Unix(timeBase, 0)})
	if err != nil {
		return fmt.Errorf("warm-up init: %w", err)
	}
	if err := st.DeletePayment(ctx, warmHash, false); err != nil {
		return fmt.Errorf("warm-up delete: %w", err)
	}
	return nil
}

func (b *kvBackend) Name() string      { return "kv" }
func (b *kvBackend) DB() paymentsdb.DB { return b.store }
func (b *kvBackend) SetYield(f func()) { b.yield = f }
func (b *kvBackend) ArmFailBefore()    { b.kv.FailWrite(1) }
func (b *kvBackend) ArmCrashBefore()   { b.kv.CrashBefore(1) }
func (b *kvBackend) ArmCrashAfter()    { b.kv.CrashAfter(1) }
func (b *kvBackend) Disarm()           { b.kv.Disarm() }
func (b *kvBackend) Fence()            { b.kv.Fence() }
func (b *kvBackend) Dead() bool        { return b.kv.Fenced() }
func (b *kvBackend) Close()            { b.kv.Close() }
func (b *kvBackend) Fired() string {
	defer func() { b.kv.FiredFail, b.kv.FiredCrashBefore, b.kv.FiredCrashAfter = 0, 0, 0 }()
	switch {
	case b.kv.FiredCrashAfter > 0:
		return "crash-after"
	case b.kv.FiredCrashBefore > 0:
		return "crash-before"
	case b.kv.FiredFail > 0:
		return "fail"
	}
	return ""
}
func (b *kvBackend) Restart() error {
	if err := b.kv.Reopen(); err != nil {
		return err
	}
	return b.open()
}

// ---- SQL on sqlite --------------------------------------------------------

// sqliteTemplate is a migrated, empty sqlite database image, built once per
// process (applying lnd's migrations costs ~100x a run).
var sqliteTemplate []byte

type sqlExec struct {
	*sqldb.TransactionExecutor[paymentsdb.SQLQueries]
	b *sqlBackend
}

// ExecTx is the seam: scheduling yield at transaction entry, fault injection
// around the real executor.
func (e *sqlExec) ExecTx(ctx context.Context, opts sqldb.TxOptions,
	body func(paymentsdb.SQLQueries) error, reset func()) error {

	b := e.b
	if b.yield != nil {
		b.yield()
	}
	if b.dead {
		return simcore.ErrSimCrashed
	}
	if opts.ReadOnly() {
		return e.TransactionExecutor.ExecTx(ctx, opts, body, reset)
	}
	arm := b.arm
	b.arm = ""
	switch arm {
	case "fail":
		b.fired = "fail"
		return simcore.ErrSimIO
	case "crash-before":
		b.fired = "crash-before"
		b.dead = true
		return simcore.ErrSimCrashed
	}
	err := e.TransactionExecutor.ExecTx(ctx, opts, body, reset)
	if arm == "crash-after" && err == nil {
		b.fired = "crash-after"
		b.dead = true
		return simcore.ErrSimCrashed
	}
	return err
}

type sqlBackend struct {
	path  string
	sq    *sqldb.SqliteStore
	store *paymentsdb.SQLStore
	yield func()
	arm   string
	fired string
	dead  bool
}

func buildSqliteTemplate(dir string) error {
	path := filepath.Join(dir, "template.db")
	sq, err := sqldb.NewSqliteStore(&sqldb.SqliteConfig{}, path)
	if err != nil {
		return err
	}
	if err := sq.ApplyAllMigrations(context.Background(), sqldb.GetMigrations()); err != nil {
		sq.DB.Close()
		return err
	}
	if err := sq.DB.Close(); err != nil {
		return err
	}
	if st, err := os.Stat(path + "-wal"); err == nil && st.Size() > 0 {
		return fmt.Errorf("sqlite template still has a non-empty WAL after close")
	}
	img, err := os.ReadFile(path)
	if err != nil {
		return err
	}
	sqliteTemplate = img
	return nil
}

// OpenSQL creates a SQLStore on a fresh, migrated sqlite file in dir.
func OpenSQL(dir string) (Backend, error) {
	if sqliteTemplate == nil {
		tdir := filepath.Join(dir, "tmpl")
		if err := os.MkdirAll(tdir, 0o700); err != nil {
			return nil, err
		}
		if err := buildSqliteTemplate(tdir); err != nil {
			return nil, fmt.Errorf("sqlite template: %w", err)
		}
		os.RemoveAll(tdir)
	}
	b := &sqlBackend{path: filepath.Join(dir, "payments.sqlite")}
	if err := os.WriteFile(b.path, sqliteTemplate, 0o600); err != nil {
		return nil, err
	}
	if err := b.open(); err != nil {
		return nil, err
	}
	return b, nil
}

func (b *sqlBackend) open() error {
	sq, err := sqldb.NewSqliteStore(&sqldb.SqliteConfig{SkipMigrations: true}, b.path)
	if err != nil {
		return err
	}
	base := sq.BaseDB
	exec := sqldb.NewTransactionExecutor(base, func(tx *sql.Tx) paymentsdb.SQLQueries {
		return base.WithTx(tx)
	})
	st, err := paymentsdb.NewSQLStore(&paymentsdb.SQLStoreConfig{QueryCfg: sqldb.DefaultSQLiteConfig()},
		&sqlExec{TransactionExecutor: exec, b: b})
	if err != nil {
		sq.DB.Close()
		return err
	}
	b.sq, b.store = sq, st
	b.dead, b.arm, b.fired = false, "", ""
	return nil
}

func (b *sqlBackend) Name() string      { return "sql" }
func (b *sqlBackend) DB() paymentsdb.DB { return b.store }
func (b *sqlBackend) SetYield(f func()) { b.yield = f }
func (b *sqlBackend) ArmFailBefore()    { b.arm = "fail" }
func (b *sqlBackend) ArmCrashBefore()   { b.arm = "crash-before" }
func (b *sqlBackend) ArmCrashAfter()    { b.arm = "crash-after" }
func (b *sqlBackend) Disarm()           { b.arm = "" }
func (b *sqlBackend) Fence()            { b.dead = true }
func (b *sqlBackend) Dead() bool        { return b.dead }
func (b *sqlBackend) Fired() string     { f := b.fired; b.fired = ""; return f }
func (b *sqlBackend) Close() {
	if b.sq != nil {
		b.sq.DB.Close()
		b.sq = nil
	}
}
func (b *sqlBackend) Restart() error {
	b.Close()
	return b.open()
}
