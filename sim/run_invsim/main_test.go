package main

import (
	"fmt"
	"os"
	"testing"

	"verif/invsim"
	"verif/simcore"
)

// TestRun is the worker entry point; simcore.WorkerMain never returns.
func TestRun(t *testing.T) {
	prop := os.Getenv("VERIF_PROP")
	if prop == "" {
		prop = "C15"
	}
	if prop != "C15" {
		fmt.Fprintf(os.Stderr, "HARNESS: unknown VERIF_PROP %q (run_invsim serves C15)\n", prop)
		os.Exit(2)
	}
	invsim.T = t
	simcore.WorkerMain(simcore.Spec{Property: "C15", Engine: "invsim", Run: invsim.Run})
}
