// Command run_invsim is the worker for property C15 (engine invsim). The
// registry under test owns goroutines and timers, so every run executes inside
// a testing/synctest bubble; that needs a *testing.T, hence the worker is a TEST
// binary:
//
//	go test -c -vet=off -o /verif/build/run_invsim ./run_invsim
//	VERIF_PROP=C15 ... /verif/build/run_invsim -test.run='^TestRun$' -test.timeout=0
//
// (see main_test.go). A plain `go build` of this package only prints this hint.
//
//go:debug randseednop=0
package main

import (
	"fmt"
	"os"
)

func main() {
	fmt.Fprintln(os.Stderr, "HARNESS: run_invsim must be built with `go test -c` (see main.go header)")
	os.Exit(2)
}
