package main

import (
	"fmt"
	"os"
	"strconv"
	"testing"

	"verif/invsim"
	"verif/simcore"
)

// TestDump is a debugging aid (not used by ./check):
//
//	VERIF_DUMP_SEED=<run seed>            print the full trace of that run
//	VERIF_DUMP_BATCH=<batch seed> VERIF_SHARD=i/n VERIF_RUNS=N
//	                                      print "runseed hash nontrivial" per run
func TestDump(t *testing.T) {
	invsim.T = t
	tier := os.Getenv("VERIF_TIER")
	if tier == "" {
		tier = "quick"
	}
	if s := os.Getenv("VERIF_DUMP_SEED"); s != "" {
		seed, _ := strconv.ParseUint(s, 10, 64)
		out := simcore.Execute(invsim.Run, simcore.NewTape(seed), seed, tier)
		for _, l := range out.Trace {
			fmt.Println(l)
		}
		fmt.Printf("hash=%016x nontrivial=%v violation=%v harness=%q\n", out.Hash, out.Nontrivial, out.Violation, out.HarnessErr)
		return
	}
	if s := os.Getenv("VERIF_DUMP_BATCH"); s != "" {
		bs, _ := strconv.ParseUint(s, 10, 64)
		shard, n := 0, 1
		fmt.Sscanf(os.Getenv("VERIF_SHARD"), "%d/%d", &shard, &n)
		runs, _ := strconv.Atoi(os.Getenv("VERIF_RUNS"))
		for i := shard; i < runs; i += n {
			seed := simcore.SplitMix(bs, uint64(i))
			out := simcore.Execute(invsim.Run, simcore.NewTape(seed), seed, tier)
			fmt.Printf("%d %016x %v\n", seed, out.Hash, out.Nontrivial)
		}
	}
}
