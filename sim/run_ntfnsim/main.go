// Command run_ntfnsim is the worker binary for property C14 (engine ntfnsim).
// The engine runs every simulated execution inside a testing/synctest bubble
// (a TxNotifier call that blocks on a client channel must be detected
// deterministically), so the worker is a TEST binary:
//
//	go test -c -vet=off -o /verif/build/run_ntfnsim ./run_ntfnsim
//	/verif/build/run_ntfnsim -test.run='^TestRun$' -test.timeout=0
//
//go:debug randseednop=0
package main

import (
	"fmt"
	"os"
)

func main() {
	fmt.Fprintln(os.Stderr, "HARNESS: run_ntfnsim must be built with `go test -c` (see ENTRY.py: build=\"gotest\")")
	os.Exit(2)
}
