package main

import (
	"fmt"
	"os"
	"testing"

	"verif/ntfnsim"
	"verif/simcore"
)

// TestRun is the worker entry point; simcore.WorkerMain never returns.
func TestRun(t *testing.T) {
	prop := os.Getenv("VERIF_PROP")
	if prop == "" {
		prop = "C14"
	}
	if prop != "C14" {
		fmt.Fprintf(os.Stderr, "HARNESS: unknown VERIF_PROP %q\n", prop)
		os.Exit(2)
	}
	// (r.Tier is VERIF_TIER in a batch and the recorded tier in a replay: the
	// thorough tier has one more configuration draw)
	run := func(r *simcore.Run) {
		ntfnsim.InBubble(t, r, func() { ntfnsim.RunOne(r, r.Tier == "thorough") })
	}
	simcore.WorkerMain(simcore.Spec{Property: prop, Engine: "ntfnsim", Run: run, ShrinkBudget: 600})
}
