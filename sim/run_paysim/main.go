// Command run_paysim is the worker binary for property C16 (paysim engine).
// ./check starts 16 of these with different shards.
//
//go:debug randseednop=0
package main

import (
	"fmt"
	"os"

	"verif/paysim"
	"verif/simcore"
)

func main() {
	prop := os.Getenv("VERIF_PROP")
	if prop != "C16" {
		fmt.Fprintf(os.Stderr, "HARNESS: unknown VERIF_PROP %q (run_paysim serves C16)\n", prop)
		os.Exit(2)
	}
	thorough := os.Getenv("VERIF_TIER") == "thorough"
	simcore.WorkerMain(simcore.Spec{
		Property: "C16", Engine: "paysim",
		Run:          func(r *simcore.Run) { paysim.Run(r, thorough, os.Getenv("VERIF_ARM")) },
		ShrinkBudget: 500,
	})
}
