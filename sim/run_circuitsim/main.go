// Command run_circuitsim is the worker binary for property C07 (circuit map:
// each HTLC forwarded at most once, at most one response relayed, exact
// recovery after restart). ./check starts 16 of these with different shards.
//
//go:debug randseednop=0
package main

import (
	"fmt"
	"os"

	"verif/circuitsim"
	"verif/simcore"
)

func main() {
	prop := os.Getenv("VERIF_PROP")
	if prop != "C07" {
		fmt.Fprintf(os.Stderr, "HARNESS: unknown VERIF_PROP %q (run_circuitsim serves C07)\n", prop)
		os.Exit(2)
	}
	thorough := os.Getenv("VERIF_TIER") == "thorough"
	simcore.WorkerMain(simcore.Spec{Property: prop, Engine: "circuitsim", Run: func(r *simcore.Run) {
		circuitsim.Run(r, thorough)
	}})
}
